//! C19 — fee forwarding charges at most the authorized fee for the authorized call only;
//! the fee-token allow-list enumeration matches the set of allowed tokens.
//!
//! Worlds (all on the working tree of /repo):
//!   * `fee-forwarder-permissionless` example (Eager approval, relayer receives the fee),
//!   * `fee-forwarder-permissioned` example (Lazy approval, the forwarder receives the fee,
//!     manager-edited allow-list, executor-only `forward`),
//! each in a *forwards* mode (BFS over forward / pre-existing allowance [/ ledger advance]) for a
//! target function without (`ping`) and with (`act`) a user authorization of its own, and the
//! permissioned one additionally in a *lists* mode (BFS over enable / disable of T1..T3[T4] with
//! forward probes as leaves).
//!
//! Fee tokens are instances of the library token wrapper `BaseTok`; the target is `LogTarget`
//! (src/shared/fee_target.rs), which logs every call and can be told to fail *after* logging.
//!
//! Every forward is first run under recording authorization. If it succeeds, the demanded trees
//! are read, the state before the call is rebuilt and the very same call is re-run under
//! ENFORCING authorization: with a principal dropped, with a bystander signing in its place, with
//! the user's signed tree changed in exactly one of {fee token, max fee, expiration, target
//! contract, target fn, one target argument} (must all be refused, without any effect), and
//! finally with the full recorded set (must succeed and reach the same state).

use soroban_sdk::testutils::Address as _;
use soroban_sdk::xdr::{ScAddress, ScSymbol, ScVal, ScVec, SorobanAuthorizedFunction, SorobanAuthorizedInvocation};
use soroban_sdk::{Address, Env, IntoVal, Symbol, TryFromVal, Val, Vec as SVec};
use std::collections::BTreeSet;
use stellar_fee_abstraction::FeeAbstractionStorageKey as FK;
use vh::auth::{self, call_mocked, call_signed, call_with, view, CallErr, Rec};
use vh::cli::{main_with, Runner};
use vh::engine::{Bounds, StepCtx, Violation, World};
use vh::ensure;
use vh::envx;
use vh::report::Tier;

#[path = "../shared/tokens.rs"]
mod tokens;
#[path = "../shared/fee_target.rs"]
mod fee_target;
#[path = "/repo/examples/fee-forwarder-permissionless/src/contract.rs"]
mod permissionless_example;
#[path = "/repo/examples/fee-forwarder-permissioned/src/contract.rs"]
mod permissioned_example;

const START: u32 = 100;
/// the argument of the forwarded call (never equal to a ledger number of the horizon)
const X: u32 = 7;


#[derive(Clone, Copy, Debug, PartialEq, Eq, PartialOrd, Ord, Hash)]
enum Who {
    /// ordinary user
    U,
    /// relayer (executor of the permissioned forwarder)
    R,
    /// the forwarder contract itself
    F,
    /// bystander
    X,
    /// manager of the permissioned forwarder
    M,
}
/// accounts whose balances are observed
const ACCTS: [Who; 4] = [Who::U, Who::R, Who::F, Who::X];
/// owners whose allowance towards the forwarder is observed
const OWNERS: [Who; 2] = [Who::U, Who::R];

#[derive(Clone, Copy, Debug, PartialEq, Eq, Hash)]
enum Tgt {
    /// well-behaved target
    G,
    /// second well-behaved target (only ever named in tampered authorizations)
    G2,
    /// target told to fail
    B,
}
const TGTS: [Tgt; 3] = [Tgt::G, Tgt::G2, Tgt::B];

#[derive(Clone, Copy, Debug, PartialEq, Eq, Hash)]
enum TFn {
    Ping,
    Act,
    /// only in "the other forward" of the authorization probes
    Pong,
    Act2,
}

#[derive(Clone, Debug, PartialEq, Eq)]
enum Op {
    /// `rel` = exp - now when the operation was generated (kept for the outcome histogram)
    Forward { user: Who, tok: usize, fee: i128, max: i128, exp: u32, rel: i64, tgt: Tgt, f: TFn, x: u32 },
    /// token T1: owner approves the forwarder (pre-existing allowance)
    Approve { owner: Who, amt: i128, live: u32 },
    Enable { tok: usize, operator: Who, signer: Who },
    Disable { tok: usize, operator: Who, signer: Who },
    Advance(u32),
    /// No call at all: on a throw-away copy of the state `IDLE` ledgers pass without any
    /// invocation, then balances, call logs, the allow-list and (permissioned) the role
    /// configuration are compared with the model again and the fee-token gate is exercised
    /// (oracle `state-survives-idle`, see `Fw::idle_probe`). The explored instance is not touched.
    IdleProbe,
}

/// Ledgers that pass in an idle probe: beyond every temporary-entry lifetime of the explored
/// horizon (allowances live at most until now+1) and every TTL extension of the fee-abstraction
/// module and the token base (FEE_ABSTRACTION_EXTEND_AMOUNT = BALANCE_EXTEND_AMOUNT = 30 days =
/// 518400 ledgers), below the persistent TTL of `envx::mk_env` (3000000).
const IDLE: u32 = 600_000;

/// A disagreement found after the idle period: nothing was called in between, so whatever differs
/// from the model was lost (or appeared) through the passage of time alone.
fn idle_viol(v: Violation) -> Violation {
    Violation::new("state-survives-idle", format!("after {IDLE} ledgers without any call [{}] {}", v.oracle, v.detail))
}

#[derive(Clone, Debug, PartialEq, Eq, Hash)]
struct Obs {
    /// bal[token][account]
    bal: Vec<Vec<i128>>,
    /// allow[token][owner] towards the forwarder
    allow: Vec<Vec<i128>>,
    /// call log per target
    logs: Vec<Vec<ScVal>>,
}

#[derive(Clone, Debug)]
struct Model {
    obs: Obs,
    /// tokens allowed and not since removed
    list: BTreeSet<usize>,
}

#[derive(Clone, Copy, Debug, PartialEq, Eq)]
enum Flavour {
    /// Eager, fee to the relayer, no allow-list entry points
    Permissionless,
    /// Lazy, fee to the forwarder, allow-list edited by the manager
    Permissioned,
}

#[derive(Clone, Copy, Debug, PartialEq, Eq)]
enum Mode {
    Forwards,
    Lists,
}

struct Fw {
    flavour: Flavour,
    mode: Mode,
    tf: TFn,
    thorough: bool,
}

struct Inst {
    e: Env,
    fwd: Address,
    toks: Vec<Address>,
    tg: [Address; 3],
    u: Address,
    r: Address,
    x: Address,
    m: Address,
}

impl Inst {
    fn addr(&self, w: Who) -> Address {
        match w {
            Who::U => self.u.clone(),
            Who::R => self.r.clone(),
            Who::F => self.fwd.clone(),
            Who::X => self.x.clone(),
            Who::M => self.m.clone(),
        }
    }
    fn target(&self, t: Tgt) -> Address {
        self.tg[TGTS.iter().position(|x| *x == t).unwrap()].clone()
    }
}

fn to_sc(e: &Env, v: Val) -> ScVal {
    ScVal::try_from_val(e, &v).expect("scval")
}

fn sc_addr(a: &Address) -> ScVal {
    ScVal::Address(auth::sc(a))
}

fn sc_sym(s: &str) -> ScVal {
    ScVal::Symbol(ScSymbol(s.try_into().expect("symbol")))
}

fn fn_name(f: TFn) -> &'static str {
    match f {
        TFn::Ping => "ping",
        TFn::Act => "act",
        TFn::Pong => "pong",
        TFn::Act2 => "act2",
    }
}

// ------------------------------------------------------------------------------------------
// tampering with a signed tree: replace every occurrence of one value by another

fn subst_val(v: &ScVal, from: &ScVal, to: &ScVal) -> ScVal {
    if v == from {
        return to.clone();
    }
    if let ScVal::Vec(Some(sv)) = v {
        let items: Vec<ScVal> = sv.iter().map(|x| subst_val(x, from, to)).collect();
        return ScVal::Vec(Some(ScVec(items.try_into().expect("vecm"))));
    }
    v.clone()
}

fn subst_inv(inv: &SorobanAuthorizedInvocation, from: &ScVal, to: &ScVal, deep: bool) -> SorobanAuthorizedInvocation {
    let function = match &inv.function {
        SorobanAuthorizedFunction::ContractFn(a) => {
            let mut a = a.clone();
            if let (ScVal::Address(f), ScVal::Address(t)) = (from, to) {
                if a.contract_address == *f {
                    a.contract_address = t.clone();
                }
            }
            if let (ScVal::Symbol(f), ScVal::Symbol(t)) = (from, to) {
                if a.function_name == *f {
                    a.function_name = t.clone();
                }
            }
            let args: Vec<ScVal> = a.args.iter().map(|x| subst_val(x, from, to)).collect();
            a.args = args.try_into().expect("vecm");
            SorobanAuthorizedFunction::ContractFn(a)
        }
        other => other.clone(),
    };
    let subs: Vec<SorobanAuthorizedInvocation> = if deep {
        inv.sub_invocations.iter().map(|s| subst_inv(s, from, to, true)).collect()
    } else {
        inv.sub_invocations.iter().cloned().collect()
    };
    SorobanAuthorizedInvocation { function, sub_invocations: subs.try_into().expect("vecm") }
}

fn val_occurs(v: &ScVal, what: &ScVal) -> bool {
    if v == what {
        return true;
    }
    if let ScVal::Vec(Some(sv)) = v {
        return sv.iter().any(|x| val_occurs(x, what));
    }
    false
}

/// Does `what` occur anywhere in the tree (as an argument, a callee address or a function name)?
fn inv_mentions(inv: &SorobanAuthorizedInvocation, what: &ScVal) -> bool {
    if let SorobanAuthorizedFunction::ContractFn(a) = &inv.function {
        if a.args.iter().any(|x| val_occurs(x, what)) {
            return true;
        }
        if let ScVal::Address(w) = what {
            if a.contract_address == *w {
                return true;
            }
        }
        if let ScVal::Symbol(w) = what {
            if a.function_name == *w {
                return true;
            }
        }
    }
    inv.sub_invocations.iter().any(|s| inv_mentions(s, what))
}

fn root_args(inv: &SorobanAuthorizedInvocation) -> Vec<ScVal> {
    match &inv.function {
        SorobanAuthorizedFunction::ContractFn(a) => a.args.iter().cloned().collect(),
        _ => vec![],
    }
}

fn has_sub_on(inv: &SorobanAuthorizedInvocation, c: &ScAddress) -> bool {
    inv.sub_invocations.iter().any(|s| match &s.function {
        SorobanAuthorizedFunction::ContractFn(a) => a.contract_address == *c,
        _ => false,
    })
}

// ------------------------------------------------------------------------------------------

impl Fw {
    fn nt(&self) -> usize {
        match self.mode {
            Mode::Forwards => 2,
            Mode::Lists => {
                if self.thorough {
                    4
                } else {
                    3
                }
            }
        }
    }

    fn recipient(&self) -> Who {
        match self.flavour {
            Flavour::Permissionless => Who::R,
            Flavour::Permissioned => Who::F,
        }
    }

    fn seed_cfg(&self, seed: usize) -> (bool, Vec<usize>) {
        match (self.mode, self.flavour) {
            // seed 1: both tokens allowed and each already used once as fee token
            (Mode::Lists, _) => (false, if seed == 1 { vec![0, 1] } else { vec![] }),
            (Mode::Forwards, Flavour::Permissionless) => (seed % 2 == 1, vec![]),
            (Mode::Forwards, Flavour::Permissioned) => {
                // (rich, []), (poor, []), (rich, [T1]), (rich, [T2])
                let cfg: [(bool, Vec<usize>); 4] = [(false, vec![]), (true, vec![]), (false, vec![0]), (false, vec![1])];
                cfg[seed].clone()
            }
        }
    }

    /// (fn name, args) of the forwarded call
    fn target_call(&self, i: &Inst, op: &Op) -> (&'static str, SVec<Val>) {
        let Op::Forward { user, f, x, .. } = op else { unreachable!() };
        let e = &i.e;
        match f {
            TFn::Ping | TFn::Pong => (fn_name(*f), (*x,).into_val(e)),
            TFn::Act | TFn::Act2 => (fn_name(*f), (i.addr(*user), *x).into_val(e)),
        }
    }

    fn fwd_args(&self, i: &Inst, op: &Op) -> SVec<Val> {
        let Op::Forward { user, tok, fee, max, exp, tgt, .. } = op else { unreachable!() };
        let e = &i.e;
        let (f, targs) = self.target_call(i, op);
        let mut v: SVec<Val> = SVec::new(e);
        v.push_back(i.toks[*tok].clone().into_val(e));
        v.push_back((*fee).into_val(e));
        v.push_back((*max).into_val(e));
        v.push_back((*exp).into_val(e));
        v.push_back(i.target(*tgt).into_val(e));
        v.push_back(Symbol::new(e, f).into_val(e));
        v.push_back(targs.into_val(e));
        v.push_back(i.addr(*user).into_val(e));
        v.push_back(i.r.clone().into_val(e));
        v
    }

    /// Execute `op`; forwards run under recording authorization, everything else under enforcing
    /// authorization signed by the stated principal.
    fn exec(&self, i: &Inst, op: &Op) -> Result<Val, CallErr> {
        let e = &i.e;
        match op {
            Op::Forward { .. } => call_mocked(e, &i.fwd, "forward", self.fwd_args(i, op)),
            Op::Approve { owner, amt, live } => {
                let o = i.addr(*owner);
                call_signed(e, &i.toks[0], "approve", (o.clone(), i.fwd.clone(), *amt, *live).into_val(e), &[o])
            }
            Op::Enable { tok, operator, signer } => {
                call_signed(e, &i.fwd, "enable_fee_token", (i.toks[*tok].clone(), i.addr(*operator)).into_val(e), &[i.addr(*signer)])
            }
            Op::Disable { tok, operator, signer } => {
                call_signed(e, &i.fwd, "disable_fee_token", (i.toks[*tok].clone(), i.addr(*operator)).into_val(e), &[i.addr(*signer)])
            }
            Op::Advance(k) => {
                envx::advance(e, *k);
                Ok(Val::VOID.into())
            }
            Op::IdleProbe => Err(CallErr::Other("idle probe: no call".into())),
        }
    }

    /// The idle probe (see `Op::IdleProbe`); `m` is the model of the state before the probe.
    ///
    /// On a copy of the state on which `IDLE` ledgers have passed without any call:
    ///   * every token balance and every target's call log equal the model's (allowances are
    ///     excluded: they carry an expiration ledger and legitimately lapse);
    ///   * the allow-list storage (Count, Token(i), TokenIndex(t)) and `is_allowed_fee_token`
    ///     agree with the model set (`check_list`, unchanged);
    ///   * permissioned forwarder: the admin is set, the manager still holds `manager`, the
    ///     relayer still holds `executor`, the ordinary user holds neither;
    ///   * the fee-token gate behaves as it did: a valid forward by U (fee 1, max 5, expiring in
    ///     the ledger it is submitted in) with each fee token in turn has the same outcome and the
    ///     same effect on balances and call logs as the same forwards on a second copy on which no
    ///     time has passed (an expired pre-existing allowance only changes WHICH authorization the
    ///     forwarder demands from the user, and the probe runs under recording authorization).
    fn idle_probe(&self, m: &Model, cx: &mut StepCtx<Self>) -> Result<(), Violation> {
        let op = Op::IdleProbe;
        let copy = cx.rebuild();
        let old = envx::now(&copy.e);
        envx::advance(&copy.e, IDLE);
        let e = &copy.e;
        let mut n = 0u64;
        let post = self.observe(&copy).map_err(idle_viol)?;
        for t in 0..self.nt() {
            for (a, who) in ACCTS.iter().enumerate() {
                ensure!(
                    post.bal[t][a] == m.obs.bal[t][a],
                    "state-survives-idle",
                    "after {} ledgers without any call (ledger {} -> {}): balance of {:?} in T{} is {}, it was {}",
                    IDLE,
                    old,
                    old + IDLE,
                    who,
                    t + 1,
                    post.bal[t][a],
                    m.obs.bal[t][a]
                );
                n += 1;
            }
        }
        for (k, t) in TGTS.iter().enumerate() {
            ensure!(
                post.logs[k] == m.obs.logs[k],
                "state-survives-idle",
                "after {} ledgers without any call: call log of target {:?} is {:?}, it was {:?}",
                IDLE,
                t,
                post.logs[k],
                m.obs.logs[k]
            );
            n += 1;
        }
        self.check_list(&copy, m, &op).map_err(idle_viol)?;
        n += 1 + 2 * self.nt() as u64 + m.list.len() as u64;
        if self.flavour == Flavour::Permissioned {
            let role = |who: Who, r: &str| -> Result<Option<u32>, Violation> {
                let v = view(e, &copy.fwd, "has_role", (copy.addr(who), Symbol::new(e, r)).into_val(e))
                    .map_err(|x| Violation::new("state-survives-idle", format!("after {IDLE} ledgers without any call has_role({who:?}, {r}) fails: {x:?}")))?;
                Ok(Option::<u32>::try_from_val(e, &v).expect("option u32"))
            };
            for (who, r, expect) in [(Who::M, "manager", true), (Who::R, "executor", true), (Who::U, "manager", false), (Who::U, "executor", false)] {
                let got = role(who, r)?;
                ensure!(
                    got.is_some() == expect,
                    "state-survives-idle",
                    "after {} ledgers without any call has_role({:?}, {}) = {:?}; the constructor's configuration says {}",
                    IDLE,
                    who,
                    r,
                    got,
                    expect
                );
                n += 1;
            }
            let adm = view(e, &copy.fwd, "get_admin", SVec::new(e)).ok().and_then(|v| Option::<Address>::try_from_val(e, &v).ok()).flatten();
            ensure!(adm.is_some(), "state-survives-idle", "after {} ledgers without any call get_admin() = None", IDLE);
            n += 1;
        }
        // the gate, differentially against a copy on which no time has passed
        let fresh = cx.rebuild();
        for tok in 0..self.nt() {
            let fwd = |i: &Inst| {
                let now = envx::now(&i.e);
                let f = Op::Forward { user: Who::U, tok, fee: 1, max: 5, exp: now, rel: 0, tgt: Tgt::G, f: self.tf, x: X };
                self.exec(i, &f).is_ok()
            };
            let (before, after) = (fwd(&fresh), fwd(&copy));
            ensure!(
                before == after,
                "state-survives-idle",
                "a valid forward by U with fee token T{} (allow-list {:?}) is {} at ledger {} but {} after {} ledgers without any call",
                tok + 1,
                m.list,
                if before { "accepted" } else { "refused" },
                old,
                if after { "accepted" } else { "refused" },
                IDLE
            );
            if after {
                cx.stats.count("forwards accepted after long idle", 1);
            }
            n += 1;
        }
        let (a, b) = (self.observe(&fresh)?, self.observe(&copy).map_err(idle_viol)?);
        ensure!(
            a.bal == b.bal && a.logs == b.logs,
            "state-survives-idle",
            "the probe forwards leave balances {:?} / call logs {:?} when run at once, but {:?} / {:?} when run after {} ledgers without any call",
            a.bal,
            a.logs,
            b.bal,
            b.logs,
            IDLE
        );
        n += 2;
        cx.stats.count("idle-probes", 1);
        cx.stats.count("getter-comparisons-after-long-idle", n);
        Ok(())
    }

    fn observe(&self, i: &Inst) -> Result<Obs, Violation> {
        let e = &i.e;
        let num = |c: &Address, f: &str, args: SVec<Val>| -> Result<i128, Violation> {
            let v = view(e, c, f, args).map_err(|x| Violation::new("getter", format!("{f}: {x:?}")))?;
            i128::try_from_val(e, &v).map_err(|_| Violation::new("getter", format!("{f}: not an i128")))
        };
        let mut o = Obs { bal: vec![], allow: vec![], logs: vec![] };
        for t in &i.toks {
            let mut b = vec![];
            for a in ACCTS {
                b.push(num(t, "balance", (i.addr(a),).into_val(e))?);
            }
            o.bal.push(b);
            let mut al = vec![];
            for w in OWNERS {
                al.push(num(t, "allowance", (i.addr(w), i.fwd.clone()).into_val(e))?);
            }
            o.allow.push(al);
        }
        for t in &i.tg {
            let v = view(e, t, "calls", SVec::new(e)).map_err(|x| Violation::new("getter", format!("calls: {x:?}")))?;
            match to_sc(e, v) {
                ScVal::Vec(Some(sv)) => o.logs.push(sv.iter().cloned().collect()),
                other => return Err(Violation::new("getter", format!("calls returned {other:?}"))),
            }
        }
        Ok(o)
    }

    /// Allow-list storage of the forwarder (`Count`, `Token(i)`, `TokenIndex(token)`) and the
    /// library's `is_allowed_fee_token`, compared with the model set.
    fn check_list(&self, i: &Inst, m: &Model, after: &Op) -> Result<(), Violation> {
        let e = &i.e;
        let (count, entries, index, allowed): (u32, Vec<Option<Address>>, Vec<Option<u32>>, Vec<Option<bool>>) = e.as_contract(&i.fwd, || {
            // (whichever durability the entries are kept in)
            let st = e.storage();
            let count: u32 = st.instance().get(&FK::Count).or_else(|| st.persistent().get(&FK::Count)).unwrap_or(0);
            let entries = (0..count.min(64))
                .map(|k| st.persistent().get::<_, Address>(&FK::Token(k)).or_else(|| st.instance().get::<_, Address>(&FK::Token(k))))
                .collect();
            let index = i
                .toks
                .iter()
                .map(|t| {
                    let k = FK::TokenIndex(t.clone());
                    st.persistent().get::<_, u32>(&k).or_else(|| st.instance().get::<_, u32>(&k))
                })
                .collect();
            // a query that fails (e.g. on a dangling index entry) is reported below, not a harness panic
            let allowed: Vec<Option<bool>> = i
                .toks
                .iter()
                .map(|t| std::panic::catch_unwind(std::panic::AssertUnwindSafe(|| stellar_fee_abstraction::is_allowed_fee_token(e, t))).ok())
                .collect();
            (count, entries, index, allowed)
        });
        for (k, a) in allowed.iter().enumerate() {
            ensure!(a.is_some(), "allow-list-enumeration", "after {:?}: is_allowed_fee_token(T{}) fails instead of answering (stored index {:?}, Count {})", after, k + 1, index[k], count);
        }
        let allowed: Vec<bool> = allowed.into_iter().map(|a| a.unwrap_or(false)).collect();
        ensure!(
            count as usize == m.list.len(),
            "allow-list-enumeration",
            "after {:?}: Count = {} but {} tokens are allowed and not since removed ({:?})",
            after,
            count,
            m.list.len(),
            m.list
        );
        let mut seen: BTreeSet<usize> = BTreeSet::new();
        for (k, en) in entries.iter().enumerate() {
            let Some(a) = en else {
                return Err(Violation::new("allow-list-enumeration", format!("after {after:?}: Token({k}) is missing although Count = {count}")));
            };
            let Some(t) = i.toks.iter().position(|x| x == a) else {
                return Err(Violation::new("allow-list-enumeration", format!("after {after:?}: Token({k}) is an address that was never allowed")));
            };
            ensure!(seen.insert(t), "allow-list-enumeration", "after {:?}: token T{} is enumerated twice (indices 0..{})", after, t + 1, count);
        }
        ensure!(seen == m.list, "allow-list-enumeration", "after {:?}: enumeration gives {:?}, allowed and not since removed: {:?}", after, seen, m.list);
        for (t, ix) in index.iter().enumerate() {
            ensure!(
                ix.is_some() == m.list.contains(&t),
                "allow-list-enumeration",
                "after {:?}: TokenIndex(T{}) = {:?} but the allowed set is {:?}",
                after,
                t + 1,
                ix,
                m.list
            );
            if let Some(k) = ix {
                let back = entries.get(*k as usize).cloned().flatten();
                ensure!(
                    back.as_ref() == Some(&i.toks[t]),
                    "allow-list-enumeration",
                    "after {:?}: TokenIndex(T{}) = {} but Token({}) holds another token",
                    after,
                    t + 1,
                    k,
                    k
                );
            }
        }
        for (t, al) in allowed.iter().enumerate() {
            ensure!(
                !*al || m.list.is_empty() || m.list.contains(&t),
                "allow-list-gate",
                "after {:?}: is_allowed_fee_token(T{}) although the list is {:?}",
                after,
                t + 1,
                m.list
            );
        }
        Ok(())
    }

    /// The authorization part of the property, for a forward that succeeded in recording mode.
    ///
    /// For each of the six components the user is said to authorize, trees that differ from the
    /// demanded ones in exactly that component are built in two ways: (1) by recording what the
    /// user would have to sign for the *other* forward (same call, one component changed) on a
    /// scratch instance of the pre-state, (2) by replacing the value inside the recorded tree
    /// (root call only / whole tree). The original call must be refused under each of them.
    fn auth_probes(&self, post: &Inst, op: &Op, recs: &[Rec], cx: &mut StepCtx<Self>) -> Result<(), Violation> {
        let Op::Forward { user, tok, fee, max, exp, rel, tgt, f, x } = op.clone() else { return Ok(()) };
        let i2 = cx.rebuild();
        let e = &i2.e;
        let pre = self.key(&i2);
        let user_sc = auth::sc(&i2.addr(user));
        let full_of = |i: &Inst, o: &Op| -> Vec<ScVal> { self.fwd_args(i, o).iter().map(|v| to_sc(&i.e, v)).collect() };
        let full = full_of(&i2, op);
        // the user's own entries: everything signed by the user (if the user is also the relayer:
        // everything but the plain root call, which is what the relayer signs)
        let same = user_sc == auth::sc(&i2.r);
        let user_entries_of =
            |rs: &[Rec], full: &Vec<ScVal>| -> Vec<Rec> { rs.iter().filter(|r| r.0 == user_sc && !(same && root_args(&r.1) == *full)).cloned().collect() };
        let user_entries = user_entries_of(recs, &full);
        let others: Vec<Rec> = recs.iter().filter(|r| !user_entries.contains(r)).cloned().collect();
        ensure!(
            !user_entries.is_empty(),
            "auth-coverage",
            "{:?} succeeded without demanding an authorization of the user of its own (demanded: {:?})",
            op,
            auth::names(e, recs)
        );
        if user_entries.iter().any(|r| has_sub_on(&r.1, &auth::sc(&i2.toks[tok]))) {
            cx.stats.count("auth.user-tree-with-approve", 1);
        } else {
            cx.stats.count("auth.user-tree-without-approve", 1);
        }
        let other_tok = (tok + 1) % 2;
        let max2 = if max == i128::MAX { max - 1 } else { max + 1 };
        let f2 = match f {
            TFn::Ping | TFn::Pong => TFn::Pong,
            TFn::Act | TFn::Act2 => TFn::Act2,
        };
        let exp0 = exp;
        let mk = |tok: usize, max: i128, exp: u32, tgt: Tgt, f: TFn, x: u32| Op::Forward { user, tok, fee, max, exp, rel: rel + (exp as i64 - exp0 as i64), tgt, f, x };
        // (component, value in the call, value in the tampered tree, the other forward)
        let dims: Vec<(&str, ScVal, ScVal, Op)> = vec![
            ("fee token", sc_addr(&i2.toks[tok]), sc_addr(&i2.toks[other_tok]), mk(other_tok, max, exp, tgt, f, x)),
            ("max_fee_amount", to_sc(e, max.into_val(e)), to_sc(e, max2.into_val(e)), mk(tok, max2, exp, tgt, f, x)),
            ("expiration_ledger", ScVal::U32(exp), ScVal::U32(exp.saturating_add(1)), mk(tok, max, exp.saturating_add(1), tgt, f, x)),
            ("target contract", sc_addr(&i2.target(tgt)), sc_addr(&i2.target(Tgt::G2)), mk(tok, max, exp, Tgt::G2, f, x)),
            ("target fn", sc_sym(fn_name(f)), sc_sym(fn_name(f2)), mk(tok, max, exp, tgt, f2, x)),
            ("target argument", ScVal::U32(x), ScVal::U32(x + 1), mk(tok, max, exp, tgt, f, x + 1)),
        ];
        let refused = |label: &str, set: &[Rec]| -> Result<(), Violation> {
            let r = call_with(e, &i2.fwd, "forward", self.fwd_args(&i2, op), set);
            ensure!(r.is_err(), "authorization", "{:?} succeeded under enforcing authorization although {}", op, label);
            ensure!(self.key(&i2) == pre, "failure-atomicity", "{:?} refused ({}) but storage changed", op, label);
            Ok(())
        };
        // a demanded principal missing / replaced by a bystander
        for v in auth::variants(e, recs, Some(&i2.x)) {
            if v.expect_ok {
                continue;
            }
            refused(&format!("authorizations: {}", v.label), &v.recs)?;
            cx.stats.count(if v.label.starts_with("drop") { "auth.drop-refused" } else { "auth.bystander-refused" }, 1);
        }
        for (what, from, to, op2) in &dims {
            let mut tried: Vec<Vec<Rec>> = vec![];
            // (1) what the user signs for the other forward
            let scratch = cx.rebuild();
            let other = match call_mocked(&scratch.e, &scratch.fwd, "forward", self.fwd_args(&scratch, op2)) {
                Ok(_) => Some(user_entries_of(&auth::recorded(&scratch.e), &full_of(&scratch, op2))),
                Err(_) => None,
            };
            drop(scratch);
            match &other {
                Some(ue2) => {
                    ensure!(
                        *ue2 != user_entries,
                        "authorization",
                        "{:?}: what the user has to sign for this forward is exactly what the user has to sign for {:?} - the user's authorization does not cover the {}",
                        op,
                        op2,
                        what
                    );
                    let set: Vec<Rec> = others.iter().cloned().chain(ue2.iter().cloned()).collect();
                    refused(&format!("the user signed for another {what}: {op2:?}"), &set)?;
                    cx.stats.count("auth.signed-for-other-forward-refused", 1);
                    tried.push(set);
                }
                None => {
                    // the other forward is not executable here (e.g. the other token is not on the
                    // list): the component must at least occur in the tree the user signs
                    ensure!(
                        user_entries.iter().any(|r| inv_mentions(&r.1, from)),
                        "auth-coverage",
                        "{:?}: the tree the user has to sign does not mention the {} ({:?})",
                        op,
                        what,
                        from
                    );
                    cx.stats.count("auth.static-coverage-checks", 1);
                }
            }
            // (2) the recorded tree with the value replaced
            for deep in [false, true] {
                let t: Vec<Rec> =
                    recs.iter().map(|r| if user_entries.contains(r) { (r.0.clone(), subst_inv(&r.1, from, to, deep)) } else { r.clone() }).collect();
                let mut sorted_eq = false;
                for prev in &tried {
                    if prev.len() == t.len() && prev.iter().all(|r| t.contains(r)) {
                        sorted_eq = true;
                    }
                }
                if t == recs || sorted_eq {
                    continue;
                }
                refused(&format!("the user's signed tree has another {what} ({})", if deep { "whole tree" } else { "root call only" }), &t)?;
                cx.stats.count("auth.tampered-tree-refused", 1);
                tried.push(t);
            }
        }
        // exactly the demanded set
        let r = call_with(e, &i2.fwd, "forward", self.fwd_args(&i2, op), recs);
        ensure!(r.is_ok(), "authorization-full-set", "{:?} refused under enforcing authorization with exactly the recorded trees: {:?}", op, r.err());
        ensure!(
            self.key(&i2) == self.key(post),
            "authorization-full-set",
            "{:?}: the run under enforcing authorization ends in another state than the recording run",
            op
        );
        cx.stats.count("auth.full-set-ok", 1);
        Ok(())
    }

    fn forward_ops(&self, now: u32, max_live: u32, users: &[Who], toks: &[usize], tgts: &[Tgt], v: &mut Vec<Op>) {
        let mut exps: Vec<u32> = vec![now, now + 1, now - 1];
        if self.thorough {
            exps.push(max_live + 1);
        }
        for user in users {
            for tok in toks {
                // the second fee token only matters for the allow-list gate: ordinary user only
                if *tok > 0 && *user != Who::U {
                    continue;
                }
                let maxes: &[i128] = if self.thorough { &[5, 0, i128::MAX] } else { &[5, 0] };
                for max in maxes {
                    let mut fees: Vec<i128> = vec![];
                    for fee in [1, *max, max.saturating_add(1), 0, -1] {
                        if !fees.contains(&fee) {
                            fees.push(fee);
                        }
                    }
                    for fee in fees {
                        for exp in &exps {
                            for tgt in tgts {
                                v.push(Op::Forward {
                                    user: *user,
                                    tok: *tok,
                                    fee,
                                    max: *max,
                                    exp: *exp,
                                    rel: *exp as i64 - now as i64,
                                    tgt: *tgt,
                                    f: self.tf,
                                    x: X,
                                });
                            }
                        }
                    }
                }
            }
        }
    }
}

impl World for Fw {
    type Op = Op;
    type Model = Model;
    type Inst = Inst;

    fn name(&self) -> String {
        format!("{:?}-{:?}-{}{}", self.flavour, self.mode, fn_name(self.tf), if self.thorough { "-t" } else { "" })
    }

    fn seeds(&self) -> usize {
        match (self.mode, self.flavour) {
            (Mode::Lists, _) => 2,
            (Mode::Forwards, Flavour::Permissionless) => 2,
            (Mode::Forwards, Flavour::Permissioned) => 4,
        }
    }

    fn seed_name(&self, s: usize) -> String {
        let (poor, list) = self.seed_cfg(s);
        format!("{} user, allow-list {:?}", if poor { "poor (3)" } else { "rich (10)" }, list.iter().map(|t| format!("T{}", t + 1)).collect::<Vec<_>>())
    }

    fn fresh(&self, seed: usize) -> (Inst, Model) {
        let (poor, list) = self.seed_cfg(seed);
        let e = envx::mk_env(START);
        let u = Address::generate(&e);
        let r = Address::generate(&e);
        let x = Address::generate(&e);
        let m = Address::generate(&e);
        let admin = Address::generate(&e);
        for a in [&u, &r, &x, &m, &admin] {
            auth::back(&e, a);
        }
        let fwd = match self.flavour {
            Flavour::Permissionless => e.register(permissionless_example::FeeForwarder, ()),
            Flavour::Permissioned => {
                let mut ex: SVec<Address> = SVec::new(&e);
                ex.push_back(r.clone());
                e.register(permissioned_example::FeeForwarder, (admin.clone(), m.clone(), ex))
            }
        };
        let toks: Vec<Address> = (0..self.nt()).map(|_| e.register(tokens::BaseTok, ())).collect();
        let tg = [e.register(fee_target::LogTarget, ()), e.register(fee_target::LogTarget, ()), e.register(fee_target::LogTarget, ())];
        call_mocked(&e, &tg[2], "set_fail", (true,).into_val(&e)).expect("set_fail");
        let rich: i128 = if poor { 3 } else { 10 };
        for t in &toks {
            for (a, amt) in [(&u, rich), (&r, rich), (&fwd, 2), (&x, 1)] {
                call_mocked(&e, t, "mint", (a.clone(), amt).into_val(&e)).expect("mint");
            }
        }
        for t in &list {
            call_mocked(&e, &fwd, "enable_fee_token", (toks[*t].clone(), m.clone()).into_val(&e)).expect("seed enable");
        }
        let inst = Inst { e, fwd, toks, tg, u, r, x, m };
        if self.mode == Mode::Lists && seed == 1 {
            for tok in 0..self.nt().min(2) {
                let now = envx::now(&inst.e);
                let op = Op::Forward { user: Who::U, tok, fee: 1, max: 5, exp: now, rel: 0, tgt: Tgt::G, f: self.tf, x: X };
                self.exec(&inst, &op).expect("seed forward");
            }
        }
        let obs = self.observe(&inst).expect("observe seed");
        (inst, Model { obs, list: list.into_iter().collect() })
    }

    fn ops(&self, i: &Inst, m: &Model, _depth: usize) -> Vec<Op> {
        let now = envx::now(&i.e);
        let max_live = i.e.ledger().max_live_until_ledger();
        let mut v = vec![];
        match self.mode {
            Mode::Forwards => {
                let toks: &[usize] = if self.flavour == Flavour::Permissioned { &[0, 1] } else { &[0] };
                self.forward_ops(now, max_live, &[Who::U, Who::R, Who::F], toks, &[Tgt::G, Tgt::B], &mut v);
                // (the relayer can never be the paying user: the host refuses two authorizations
                // of one address in one frame, so only U's allowance matters)
                let owners: &[Who] = &[Who::U];
                for (k, owner) in owners.iter().enumerate() {
                    // pre-existing allowance in {none, max-1, max, max+1} for max = 5
                    for amt in [4i128, 5, 6, 0] {
                        if amt == 0 && m.obs.allow[0][k] == 0 {
                            continue;
                        }
                        v.push(Op::Approve { owner: *owner, amt, live: now + 1 });
                        if self.thorough && amt == 6 {
                            v.push(Op::Approve { owner: *owner, amt, live: now });
                        }
                    }
                }
                if self.thorough {
                    v.push(Op::Advance(1));
                }
            }
            Mode::Lists => {
                for tok in 0..self.nt() {
                    for (operator, signer) in [(Who::M, Who::M), (Who::U, Who::U), (Who::M, Who::U), (Who::U, Who::M)] {
                        v.push(Op::Enable { tok, operator, signer });
                        v.push(Op::Disable { tok, operator, signer });
                    }
                }
                // leaf probes: is the token accepted as fee token?
                let toks: Vec<usize> = (0..self.nt()).collect();
                for tok in toks {
                    v.push(Op::Forward { user: Who::U, tok, fee: 1, max: 5, exp: now, rel: 0, tgt: Tgt::G, f: self.tf, x: X });
                }
            }
        }
        v.push(Op::IdleProbe);
        v
    }

    fn kind(&self, op: &Op) -> String {
        match op {
            Op::Forward { user, fee, max, rel, tgt, .. } => {
                let mut bad: Vec<&str> = vec![];
                if *fee <= 0 {
                    bad.push("fee<=0");
                }
                if *fee > *max {
                    bad.push("fee>max");
                }
                if *rel < 0 {
                    bad.push("expired");
                }
                if *rel > 1000 {
                    bad.push("expiration-beyond-max-ttl");
                }
                if *tgt == Tgt::B {
                    bad.push("target-fails");
                }
                if *user == Who::F {
                    bad.push("user=forwarder");
                }
                match bad.len() {
                    0 if *user == Who::R => "forward.user=relayer".into(),
                    0 => "forward.valid".into(),
                    1 => format!("forward.{}", bad[0]),
                    _ => "forward.several-invalid".into(),
                }
            }
            Op::Approve { .. } => "pre-approve".into(),
            Op::Enable { operator, signer, .. } => if *operator == Who::M && *signer == Who::M { "enable.by-manager" } else { "enable.not-by-manager" }.into(),
            Op::Disable { operator, signer, .. } => if *operator == Who::M && *signer == Who::M { "disable.by-manager" } else { "disable.not-by-manager" }.into(),
            Op::Advance(_) => "advance".into(),
            Op::IdleProbe => "idle-probe".into(),
        }
    }

    fn apply(&self, i: &mut Inst, op: &Op) {
        let _ = self.exec(i, op);
    }

    fn leaf_only(&self, op: &Op) -> bool {
        self.mode == Mode::Lists && matches!(op, Op::Forward { .. })
    }

    fn atomic_on_refusal(&self, op: &Op) -> bool {
        !matches!(op, Op::Advance(_))
    }

    fn step(&self, i: &mut Inst, m: &mut Model, op: &Op, cx: &mut StepCtx<Self>) -> Result<bool, Violation> {
        if matches!(op, Op::IdleProbe) {
            self.idle_probe(m, cx)?;
            return Ok(false);
        }
        let now = envx::now(&i.e);
        let res = self.exec(i, op);
        // the demanded trees must be read before any other invocation
        let recs: Vec<Rec> = if res.is_ok() && matches!(op, Op::Forward { .. }) { auth::recorded(&i.e) } else { vec![] };
        let ok = res.is_ok();
        if !ok {
            // failure => every balance, allowance, call log and list entry unchanged: the engine
            // compares the digest of the storage of *all* contracts with the pre-state
            if let Op::Forward { user, tok, fee, max, rel, tgt, .. } = op {
                let params_ok = *fee > 0 && fee <= max && *rel >= 0 && *rel <= 1000 && *tgt != Tgt::B && *user == Who::U;
                if params_ok {
                    let listed = m.list.is_empty() || m.list.contains(tok);
                    let ui = ACCTS.iter().position(|a| a == user).unwrap();
                    if !listed {
                        cx.stats.count("refused.token-not-on-list", 1);
                    } else if m.obs.bal[*tok][ui] < *fee {
                        cx.stats.count("refused.insufficient-user-balance", 1);
                    } else {
                        cx.stats.count("refused.valid-looking-forward", 1);
                        if std::env::var("VH_DEBUG").is_ok() {
                            eprintln!("valid-looking refused: {op:?} -> {:?}", res.as_ref().err());
                        }
                    }
                }
            }
            return Ok(false);
        }
        let pre = m.obs.clone();
        match op {
            Op::Forward { user, tok, fee, max, exp, tgt, .. } => {
                ensure!(*user != Who::F, "user-is-forwarder", "{:?} succeeded with the forwarder itself as the paying user", op);
                ensure!(*fee > 0, "fee-bounds", "{:?} succeeded with a fee that is not positive", op);
                ensure!(fee <= max, "fee-bounds", "{:?} succeeded with fee {} above the authorized maximum {}", op, fee, max);
                ensure!(*exp >= now, "expiration", "{:?} succeeded at ledger {} after its expiration ledger {}", op, now, exp);
                ensure!(
                    m.list.is_empty() || m.list.contains(tok),
                    "allow-list-gate",
                    "{:?} accepted fee token T{} although the allow-list is {:?}",
                    op,
                    tok + 1,
                    m.list
                );
                let ui = ACCTS.iter().position(|a| a == user).unwrap();
                let ri = ACCTS.iter().position(|a| *a == self.recipient()).unwrap();
                m.obs.bal[*tok][ui] -= *fee;
                m.obs.bal[*tok][ri] += *fee;
                let (f, targs) = self.target_call(i, op);
                let entry: Val = (Symbol::new(&i.e, f), targs).into_val(&i.e);
                let ti = TGTS.iter().position(|t| t == tgt).unwrap();
                m.obs.logs[ti].push(to_sc(&i.e, entry));
                if m.list.is_empty() {
                    cx.stats.count("accepted.with-empty-list", 1);
                } else {
                    cx.stats.count("accepted.with-listed-token", 1);
                }
            }
            Op::Enable { tok, .. } => {
                m.list.insert(*tok);
            }
            Op::Disable { tok, .. } => {
                m.list.remove(tok);
            }
            Op::Approve { .. } | Op::Advance(_) => {}
            Op::IdleProbe => unreachable!(),
        }
        let post = self.observe(i)?;
        cx.stats.count("getter-comparisons", (self.nt() * (ACCTS.len() + OWNERS.len()) + TGTS.len()) as u64);
        for t in 0..self.nt() {
            for (a, who) in ACCTS.iter().enumerate() {
                ensure!(
                    post.bal[t][a] == m.obs.bal[t][a],
                    "exact-fee",
                    "after {:?}: balance of {:?} in T{} is {} (before {}; expected {}: user debited exactly the fee, {:?} credited exactly the fee, nobody else touched)",
                    op,
                    who,
                    t + 1,
                    post.bal[t][a],
                    pre.bal[t][a],
                    m.obs.bal[t][a],
                    self.recipient()
                );
            }
        }
        for (k, t) in TGTS.iter().enumerate() {
            ensure!(
                post.logs[k] == m.obs.logs[k],
                "target-call-exactly-once",
                "after {:?}: call log of target {:?} is {:?}, expected {:?}",
                op,
                t,
                post.logs[k],
                m.obs.logs[k]
            );
        }
        if !matches!(op, Op::Forward { .. } | Op::Approve { .. } | Op::Advance(_)) {
            ensure!(post.allow == m.obs.allow, "allowance-untouched", "after {:?}: allowances {:?} -> {:?}", op, m.obs.allow, post.allow);
        }
        m.obs.allow = post.allow.clone();
        self.check_list(i, m, op)?;
        cx.stats.count("allow-list-comparisons", 1);
        if let Op::Forward { .. } = op {
            self.auth_probes(i, op, &recs, cx)?;
        }
        Ok(true)
    }

    fn key(&self, i: &Inst) -> [u8; 32] {
        envx::storage_digest(&i.e, true)
    }

    fn model_digest(&self, m: &Model) -> u64 {
        vh::engine::dig(&(&m.obs, &m.list))
    }
}

fn main() {
    main_with(
        "C19",
        "model_checking",
        "level-BFS over histories on the real fee-forwarder examples (permissionless = Eager, permissioned = Lazy + allow-list) with library tokens as fee tokens and a logging / failing target. forwards mode: forward(user in {U, relayer, forwarder}, fee in {-1,0,1,max,max+1}, max in {0,5[,i128::MAX]}, expiration in {now-1,now,now+1[,max_ttl+1]}, target ok/failing, fee token T1 [T2 for user U in the permissioned worlds]) x pre-existing allowance {none,4,5,6} [x advance], seeds {rich user, poor user} with empty allow-list, rich user with allow-list [T1] / [T2], target fn without/with own user authorization; lists mode: enable/disable of T1..T3[T4] by manager / non-manager with forward probes. After every accepted step all balances, allowances, call logs and the allow-list storage are compared with the model; every refused step must leave the storage digest of all contracts unchanged; every accepted forward is re-run from the rebuilt pre-state under enforcing authorization with the full set, every principal dropped / replaced by a bystander, and the user's tree tampered in each of {fee token, max fee, expiration, target, fn, argument}; idle probe in every expanded state of every world: on a rebuilt copy 600000 ledgers pass without any call (beyond every temporary lifetime and FEE_ABSTRACTION_EXTEND_AMOUNT = 518400), then all balances, call logs, the allow-list storage and is_allowed_fee_token, and (permissioned) admin / manager / executor are unchanged (allowances, which carry an expiration ledger, are excluded) and a valid forward with each fee token has the same outcome and effect as on a copy on which no time has passed; non-trivial = distinct storage state reached through >=1 accepted call",
        |tier: Tier, r: &mut Runner| {
            let th = tier == Tier::Thorough;
            // one wall budget for the whole run (quick 38 s, thorough 540 s): the worlds run one
            // after the other, cheapest first, each with whatever is left
            let t0 = std::time::Instant::now();
            let budget: u64 = tier.pick(38, 540);
            let left = || budget.saturating_sub(t0.elapsed().as_secs()).max(1);
            for tf in [TFn::Ping, TFn::Act] {
                r.world(&Fw { flavour: Flavour::Permissioned, mode: Mode::Lists, tf, thorough: th }, &Bounds::new(tier.pick(5, 7), left()));
            }
            for (flavour, depth) in [(Flavour::Permissionless, tier.pick(5, 6)), (Flavour::Permissioned, tier.pick(3, 4))] {
                for tf in [TFn::Ping, TFn::Act] {
                    r.world(&Fw { flavour, mode: Mode::Forwards, tf, thorough: th }, &Bounds::new(depth, left()));
                }
            }
            if let Some(rep) = r.report() {
                rep.require(
                    &["forward.valid", "pre-approve", "enable.by-manager", "disable.by-manager"],
                    &[
                        "forward.valid",
                        "forward.fee<=0",
                        "forward.fee>max",
                        "forward.expired",
                        "forward.target-fails",
                        "forward.user=forwarder",
                        // (a manager's enable of a listed / disable of an unlisted token may be refused
                        //  or be a silent no-op: the statement only constrains the resulting set)
                        "enable.not-by-manager",
                        "disable.not-by-manager",
                    ],
                );
                rep.require_counter(&[
                    "idle-probes",
                    "getter-comparisons-after-long-idle",
                    "forwards accepted after long idle",
                    "auth.full-set-ok",
                    "auth.drop-refused",
                    "auth.bystander-refused",
                    "auth.signed-for-other-forward-refused",
                    "auth.tampered-tree-refused",
                    "auth.static-coverage-checks",
                    "auth.user-tree-with-approve",
                    "auth.user-tree-without-approve",
                    "refused.token-not-on-list",
                    "refused.insufficient-user-balance",
                    "accepted.with-empty-list",
                    "accepted.with-listed-token",
                ]);
            }
        },
    );
}
