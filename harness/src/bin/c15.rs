//! C15 — an RWA identity is verified only by valid claims from currently trusted issuers.
//!
//! Layer 2 (BFS world `identity-verifier`): the real `verify_identity`, the real claim-topics-and-
//! issuers registry, the real identity-claims and identity-registry-storage code (wrappers), two
//! scripted issuer contracts whose answers are flipped by the environment. After every step
//! `verify_identity(account)` is compared with the statement's predicate, evaluated from the
//! registry's *independent* getters (get_claim_topics, has_claim_topic) and the model of claims held
//! and issuer answers.
//!
//! Layer 1 (stateless scenario enumeration `claim-issuer`): a claim issuer assembled from the
//! library helpers as documented, three signature schemes; a genuine claim and every listed defect.
//! The signed message is built in the harness from the statement's field list (network, issuer,
//! identity, topic, nonce, data), not with the library's builder.

use serde_json::json;
use sha2::Digest as _;
use soroban_sdk::testutils::{Address as _, Ledger as _};
use soroban_sdk::xdr::{Limits, ScVal, WriteXdr};
use soroban_sdk::{Address, Bytes, BytesN, Env, IntoVal, String as SString, TryFromVal, Val, Vec as SVec};
use vh::auth::{call_mocked, view};
use vh::cli::{main_with, Runner};
use vh::engine::{Bounds, StepCtx, Violation, World};
use vh::ensure;
use vh::envx;
use vh::report::Tier;

#[path = "../shared/c15_wrap.rs"]
mod wrap;

// =============================================================================================
// Layer 2

const TOPICS: [u32; 2] = [1, 2];

#[derive(Clone, Debug, PartialEq, Eq)]
enum Op {
    AddTopic(u32),
    RemoveTopic(u32),
    AddIssuer { i: usize, topics: Vec<u32> },
    RemoveIssuer { i: usize },
    UpdateIssuer { i: usize, topics: Vec<u32> },
    /// `v`: which of the issuer's two renderings of the claim (scheme 101 / data 7, scheme 102 / data 9)
    AddClaim { i: usize, t: u32, v: u8 },
    RemoveClaim { i: usize, t: u32 },
    /// environment: issuer i confirms (true) / rejects (false) claims for topic t from now on
    Answer { i: usize, t: u32, confirm: bool },
    /// probe on a rebuilt copy: 600000 ledgers pass without a call; the verdict and the claim index
    /// must be the same
    IdleProbe,
}

#[derive(Clone, Debug, PartialEq, Eq, Hash)]
struct Model {
    held: [[bool; 2]; 2],    // [issuer][topic-1]
    confirm: [[bool; 2]; 2], // [issuer][topic-1]
}

struct Ver {
    thorough: bool,
}

struct Inst {
    e: Env,
    cti: Address,
    identity: Address,
    verifier: Address,
    issuers: [Address; 2],
    account: Address,
}

impl Ver {
    fn call(&self, i: &Inst, op: &Op) -> (Address, &'static str, SVec<Val>) {
        let e = &i.e;
        let tv = |ts: &Vec<u32>| {
            let mut v: SVec<u32> = SVec::new(e);
            for t in ts {
                v.push_back(*t);
            }
            v
        };
        match op {
            Op::AddTopic(t) => (i.cti.clone(), "add_claim_topic", (*t,).into_val(e)),
            Op::RemoveTopic(t) => (i.cti.clone(), "remove_claim_topic", (*t,).into_val(e)),
            Op::AddIssuer { i: k, topics } => (i.cti.clone(), "add_trusted_issuer", (i.issuers[*k].clone(), tv(topics)).into_val(e)),
            Op::RemoveIssuer { i: k } => (i.cti.clone(), "remove_trusted_issuer", (i.issuers[*k].clone(),).into_val(e)),
            Op::UpdateIssuer { i: k, topics } => (i.cti.clone(), "update_issuer_claim_topics", (i.issuers[*k].clone(), tv(topics)).into_val(e)),
            Op::AddClaim { i: k, t, v } => {
                let (s, d) = if *v == 0 { (1u8, 7u8) } else { (2u8, 9u8) };
                (
                    i.identity.clone(),
                    "add_claim",
                    (*t, 100 + s as u32, i.issuers[*k].clone(), Bytes::from_array(e, &[s, *t as u8, d]), Bytes::from_array(e, &[d]), SString::from_str(e, "uri")).into_val(e),
                )
            }
            Op::RemoveClaim { i: k, t } => {
                let id = view(e, &i.identity, "claim_id", (i.issuers[*k].clone(), *t).into_val(e)).expect("claim_id");
                (i.identity.clone(), "remove_claim", (BytesN::<32>::try_from_val(e, &id).unwrap(),).into_val(e))
            }
            Op::Answer { i: k, t, confirm } => (i.issuers[*k].clone(), "set_answer", (*t, if *confirm { 0u32 } else { 1u32 }).into_val(e)),
            Op::IdleProbe => unreachable!(),
        }
    }
    fn exec(&self, i: &Inst, op: &Op) -> bool {
        if matches!(op, Op::IdleProbe) {
            return false;
        }
        let (c, f, a) = self.call(i, op);
        call_mocked(&i.e, &c, f, a).is_ok()
    }

    /// The statement's predicate, from the registry's independent getters and the model.
    fn expected(&self, i: &Inst, m: &Model) -> Result<(bool, String), Violation> {
        let e = &i.e;
        let topics_v = view(e, &i.cti, "get_claim_topics", SVec::new(e)).map_err(|x| Violation::new("getter", format!("get_claim_topics: {x:?}")))?;
        let required: SVec<u32> = SVec::try_from_val(e, &topics_v).unwrap();
        let mut why = String::new();
        let mut all = true;
        for t in required.iter() {
            let mut satisfied = false;
            for k in 0..2 {
                let trusted = view(e, &i.cti, "has_claim_topic", (i.issuers[k].clone(), t).into_val(e)).ok().map(|v| bool::try_from_val(e, &v).unwrap()).unwrap_or(false);
                let ti = (t - 1) as usize;
                if trusted && ti < 2 && m.held[k][ti] && m.confirm[k][ti] {
                    satisfied = true;
                }
                why.push_str(&format!("[topic {t} issuer I{}: trusted={trusted} held={} confirmed={}] ", k + 1, ti < 2 && m.held[k][ti], ti < 2 && m.confirm[k][ti]));
            }
            if !satisfied {
                all = false;
            }
        }
        Ok((all, why))
    }

    fn check_verify(&self, i: &Inst, m: &Model, after: &str) -> Result<(), Violation> {
        let (want, why) = self.expected(i, m)?;
        let got = view(&i.e, &i.verifier, "verify_identity", (i.account.clone(),).into_val(&i.e)).is_ok();
        ensure!(
            got == want,
            if got { "verified-without-valid-claims" } else { "valid-identity-rejected" },
            "after {}: verify_identity returned ok={} but the statement's predicate is {} — {}",
            after,
            got,
            want,
            why
        );
        // cross-check the model of held claims with the identity contract's topic index
        for k in 0..2 {
            for t in TOPICS {
                let id = BytesN::<32>::try_from_val(&i.e, &view(&i.e, &i.identity, "claim_id", (i.issuers[k].clone(), t).into_val(&i.e)).unwrap()).unwrap();
                let ids: SVec<BytesN<32>> = SVec::try_from_val(&i.e, &view(&i.e, &i.identity, "get_claim_ids_by_topic", (t,).into_val(&i.e)).unwrap()).unwrap();
                ensure!(ids.contains(&id) == m.held[k][(t - 1) as usize], "claims-index", "claim (I{}, topic {}) index says {} model says {}", k + 1, t, ids.contains(&id), m.held[k][(t - 1) as usize]);
            }
        }
        Ok(())
    }
}

impl World for Ver {
    type Op = Op;
    type Model = Model;
    type Inst = Inst;

    fn name(&self) -> String {
        format!("identity-verifier{}", if self.thorough { "-t" } else { "" })
    }
    fn seeds(&self) -> usize {
        2
    }
    fn seed_name(&self, s: usize) -> String {
        ["empty-registry", "topics-1-2-issuer-I1-for-both-claims-held"][s].into()
    }

    fn fresh(&self, seed: usize) -> (Inst, Model) {
        let e = envx::mk_env(100);
        let cti = e.register(wrap::CtiWrap, ());
        let irs = e.register(wrap::IrsWrap, ());
        let identity = e.register(wrap::IdentityWrap, ());
        let verifier = e.register(wrap::VerifierWrap, (cti.clone(), irs.clone()));
        let issuers = [e.register(wrap::MockIssuer, ()), e.register(wrap::MockIssuer, ())];
        let account = Address::generate(&e);
        call_mocked(&e, &irs, "add_identity", (account.clone(), identity.clone()).into_val(&e)).expect("add_identity");
        let i = Inst { e, cti, identity, verifier, issuers, account };
        let mut m = Model { held: [[false; 2]; 2], confirm: [[true; 2]; 2] };
        if seed == 1 {
            for op in [
                Op::AddTopic(1),
                Op::AddTopic(2),
                Op::AddIssuer { i: 0, topics: vec![1, 2] },
                Op::AddClaim { i: 0, t: 1, v: 0 },
                Op::AddClaim { i: 0, t: 2, v: 0 },
            ] {
                assert!(self.exec(&i, &op), "seed op {op:?} refused");
                if let Op::AddClaim { i: k, t, .. } = op {
                    m.held[k][(t - 1) as usize] = true;
                }
            }
        }
        (i, m)
    }

    fn ops(&self, _i: &Inst, m: &Model, _d: usize) -> Vec<Op> {
        let mut v = vec![];
        for t in TOPICS {
            v.push(Op::AddTopic(t));
            v.push(Op::RemoveTopic(t));
        }
        for i in 0..2 {
            for topics in [vec![1], vec![2], vec![1, 2]] {
                v.push(Op::AddIssuer { i, topics: topics.clone() });
                v.push(Op::UpdateIssuer { i, topics });
            }
            if self.thorough {
                v.push(Op::UpdateIssuer { i, topics: vec![] });
                v.push(Op::AddIssuer { i, topics: vec![] });
            }
            v.push(Op::RemoveIssuer { i });
            for t in TOPICS {
                v.push(Op::AddClaim { i, t, v: 0 });
                v.push(Op::AddClaim { i, t, v: 1 });
                v.push(Op::RemoveClaim { i, t });
                v.push(Op::Answer { i, t, confirm: !m.confirm[i][(t - 1) as usize] });
            }
        }
        v.push(Op::IdleProbe);
        v
    }

    fn kind(&self, op: &Op) -> String {
        match op {
            Op::AddTopic(_) => "add_claim_topic",
            Op::RemoveTopic(_) => "remove_claim_topic",
            Op::AddIssuer { .. } => "add_trusted_issuer",
            Op::RemoveIssuer { .. } => "remove_trusted_issuer",
            Op::UpdateIssuer { .. } => "update_issuer_claim_topics",
            Op::AddClaim { .. } => "add_claim",
            Op::RemoveClaim { .. } => "remove_claim",
            Op::Answer { .. } => "issuer-answer-flip",
            Op::IdleProbe => "idle-probe",
        }
        .into()
    }
    fn apply(&self, i: &mut Inst, op: &Op) {
        self.exec(i, op);
    }

    fn step(&self, i: &mut Inst, m: &mut Model, op: &Op, cx: &mut StepCtx<Self>) -> Result<bool, Violation> {
        if matches!(op, Op::IdleProbe) {
            let copy = cx.rebuild();
            envx::advance(&copy.e, 600_000);
            self.check_verify(&copy, m, "600000 idle ledgers").map_err(|v| Violation::new("state-survives-idle", format!("[{}] {}", v.oracle, v.detail)))?;
            cx.stats.count("idle-probes", 1);
            return Ok(false);
        }
        let ok = self.exec(i, op);
        match op {
            Op::AddClaim { i: k, t, .. } => {
                let ti = (*t - 1) as usize;
                // add_claim acceptance <=> the issuer confirms the claim
                ensure!(ok == m.confirm[*k][ti], "add_claim-acceptance", "add_claim for (I{}, topic {}) returned ok={} while the issuer's answer is confirm={}", k + 1, t, ok, m.confirm[*k][ti]);
                if ok {
                    m.held[*k][ti] = true;
                }
            }
            Op::RemoveClaim { i: k, t } => {
                let ti = (*t - 1) as usize;
                ensure!(ok == m.held[*k][ti], "remove_claim", "remove_claim (I{}, topic {}) ok={} held={}", k + 1, t, ok, m.held[*k][ti]);
                if ok {
                    m.held[*k][ti] = false;
                }
            }
            Op::Answer { i: k, t, confirm } => {
                if ok {
                    m.confirm[*k][(*t - 1) as usize] = *confirm;
                }
            }
            _ => {}
        }
        if ok {
            self.check_verify(i, m, &format!("{op:?}"))?;
            cx.stats.count("verify_identity-evaluations", 1);
            let (want, _) = self.expected(i, m)?;
            cx.stats.count(if want { "verify-expected-ok" } else { "verify-expected-fail" }, 1);
        }
        Ok(ok)
    }

    fn key(&self, i: &Inst) -> [u8; 32] {
        envx::storage_digest(&i.e, false)
    }
    fn model_digest(&self, m: &Model) -> u64 {
        vh::engine::dig(m)
    }
}

// =============================================================================================
// Layer 1: the claim issuer built from the helpers

#[derive(Clone, Copy, Debug, PartialEq, Eq)]
enum Scheme {
    Ed25519,
    Secp256k1,
    Secp256r1,
}

impl Scheme {
    fn num(&self) -> u32 {
        match self {
            Scheme::Ed25519 => wrap::ED25519,
            Scheme::Secp256k1 => wrap::SECP256K1,
            Scheme::Secp256r1 => wrap::SECP256R1,
        }
    }
    /// (public key bytes, sig_data) for `msg` under key seed `k`
    fn sign(&self, k: u8, msg: &[u8]) -> (Vec<u8>, Vec<u8>) {
        let seed = [k; 32];
        match self {
            Scheme::Ed25519 => {
                use ed25519_dalek::Signer;
                let sk = ed25519_dalek::SigningKey::from_bytes(&seed);
                let pk = sk.verifying_key().as_bytes().to_vec();
                let sig = sk.sign(msg).to_bytes().to_vec();
                let mut d = pk.clone();
                d.extend(sig);
                (pk, d)
            }
            Scheme::Secp256r1 => {
                use p256::ecdsa::signature::hazmat::PrehashSigner;
                use p256::elliptic_curve::sec1::ToEncodedPoint;
                let sk = p256::ecdsa::SigningKey::from_slice(&seed).unwrap();
                let pk = sk.verifying_key().to_encoded_point(false).as_bytes().to_vec();
                let digest = sha2::Sha256::digest(msg);
                let sig: p256::ecdsa::Signature = sk.sign_prehash(&digest).unwrap();
                let sig = sig.normalize_s().unwrap_or(sig);
                let mut d = pk.clone();
                d.extend(sig.to_bytes().to_vec());
                (pk, d)
            }
            Scheme::Secp256k1 => {
                use k256::elliptic_curve::sec1::ToEncodedPoint;
                let sk = k256::ecdsa::SigningKey::from_slice(&seed).unwrap();
                let pk = sk.verifying_key().to_encoded_point(false).as_bytes().to_vec();
                let digest = <sha3::Keccak256 as sha3::Digest>::digest(msg);
                let (sig, rid) = sk.sign_prehash_recoverable(&digest).unwrap();
                let mut d = pk.clone();
                d.extend(sig.to_bytes().to_vec());
                d.extend((rid.to_byte() as u32).to_be_bytes());
                (pk, d)
            }
        }
    }
}

struct IssuerEnv {
    e: Env,
    cti: Address,
    issuer: Address,
    identity: Address,
    other_identity: Address,
    other_issuer: Address,
}

const T0: u64 = 1_700_000_000 + 100 * 5; // timestamp of mk_env(100)
const VALID_UNTIL: u64 = T0 + 1000;

fn issuer_env() -> IssuerEnv {
    let e = envx::mk_env(100);
    let cti = e.register(wrap::CtiWrap, ());
    let issuer = e.register(wrap::RealIssuer, ());
    let other_issuer = e.register(wrap::RealIssuer, ());
    let identity = e.register(wrap::IdentityWrap, ());
    let other_identity = e.register(wrap::IdentityWrap, ());
    for t in [1u32, 2u32] {
        call_mocked(&e, &cti, "add_claim_topic", (t,).into_val(&e)).expect("topic");
    }
    let mut ts: SVec<u32> = SVec::new(&e);
    ts.push_back(1);
    ts.push_back(2);
    call_mocked(&e, &cti, "add_trusted_issuer", (issuer.clone(), ts.clone()).into_val(&e)).expect("issuer");
    call_mocked(&e, &cti, "add_trusted_issuer", (other_issuer.clone(), ts).into_val(&e)).expect("issuer");
    IssuerEnv { e, cti, issuer, identity, other_identity, other_issuer }
}

fn addr_xdr(a: &Address) -> Vec<u8> {
    ScVal::Address(vh::auth::sc(a)).to_xdr(Limits::none()).unwrap()
}

/// network_id || issuer || identity || topic || nonce || data — from the statement's field list
fn message(network: [u8; 32], issuer: &Address, identity: &Address, topic: u32, nonce: u32, data: &[u8]) -> Vec<u8> {
    let mut m = network.to_vec();
    m.extend(addr_xdr(issuer));
    m.extend(addr_xdr(identity));
    m.extend(topic.to_be_bytes());
    m.extend(nonce.to_be_bytes());
    m.extend(data);
    m
}

fn claim_data(payload: &[u8]) -> Vec<u8> {
    let mut d = (T0 - 10).to_be_bytes().to_vec();
    d.extend(VALID_UNTIL.to_be_bytes());
    d.extend(payload);
    d
}

/// One scenario: returns (descriptor, expectation, observed validity). expectation None = either.
fn scenario(s: Scheme, name: &str) -> Option<(Option<bool>, bool)> {
    let x = issuer_env();
    let e = &x.e;
    let net = [7u8; 32];
    let data = claim_data(b"kyc-passed");
    let key = 0x11u8;
    let pk = s.sign(key, b"x").0;
    let b = |v: &[u8]| Bytes::from_slice(e, v);
    let allow = |pk: &[u8], scheme: u32, topic: u32| call_mocked(e, &x.issuer, "allow_key", (b(pk), x.cti.clone(), scheme, topic).into_val(e));
    let valid = |identity: &Address, topic: u32, scheme: u32, sig: &[u8], data: &[u8]| -> bool {
        view(e, &x.issuer, "is_claim_valid", (identity.clone(), topic, scheme, b(sig), b(data)).into_val(e)).is_ok()
    };
    let genuine_sig = |topic: u32, nonce: u32, data: &[u8]| s.sign(key, &message(net, &x.issuer, &x.identity, topic, nonce, data)).1;
    // default setup: key allowed for topic 1 (and for topic 2 in the scenarios that need it)
    let mut expect = Some(false);
    let got: bool;
    let bitflip = |v: &[u8], bit: usize| {
        let mut w = v.to_vec();
        w[bit / 8] ^= 1 << (bit % 8);
        w
    };
    let parts: Vec<&str> = name.split(':').collect();
    match parts[0] {
        "genuine" => {
            allow(&pk, s.num(), 1).ok()?;
            expect = Some(true);
            got = valid(&x.identity, 1, s.num(), &genuine_sig(1, 0, &data), &data);
        }
        "other-network" => {
            allow(&pk, s.num(), 1).ok()?;
            let sig = s.sign(key, &message([8u8; 32], &x.issuer, &x.identity, 1, 0, &data)).1;
            got = valid(&x.identity, 1, s.num(), &sig, &data);
        }
        "other-issuer" => {
            allow(&pk, s.num(), 1).ok()?;
            let sig = s.sign(key, &message(net, &x.other_issuer, &x.identity, 1, 0, &data)).1;
            got = valid(&x.identity, 1, s.num(), &sig, &data);
        }
        "other-identity" => {
            allow(&pk, s.num(), 1).ok()?;
            let sig = s.sign(key, &message(net, &x.issuer, &x.other_identity, 1, 0, &data)).1;
            got = valid(&x.identity, 1, s.num(), &sig, &data);
        }
        "presented-for-other-identity" => {
            allow(&pk, s.num(), 1).ok()?;
            got = valid(&x.other_identity, 1, s.num(), &genuine_sig(1, 0, &data), &data);
        }
        "other-topic" => {
            // key allowed for both topics; signed for topic 2, presented for topic 1
            allow(&pk, s.num(), 1).ok()?;
            allow(&pk, s.num(), 2).ok()?;
            got = valid(&x.identity, 1, s.num(), &genuine_sig(2, 0, &data), &data);
        }
        "nonce-bumped-after-signing" => {
            allow(&pk, s.num(), 1).ok()?;
            let sig = genuine_sig(1, 0, &data);
            if !valid(&x.identity, 1, s.num(), &sig, &data) {
                return Some((Some(true), false));
            }
            call_mocked(e, &x.issuer, "bump_nonce", (x.identity.clone(), 1u32).into_val(e)).ok()?;
            got = valid(&x.identity, 1, s.num(), &sig, &data);
        }
        "signed-with-new-nonce-after-bump" => {
            allow(&pk, s.num(), 1).ok()?;
            call_mocked(e, &x.issuer, "bump_nonce", (x.identity.clone(), 1u32).into_val(e)).ok()?;
            expect = Some(true);
            got = valid(&x.identity, 1, s.num(), &genuine_sig(1, 1, &data), &data);
        }
        "bump-of-other-topic-keeps-claim" => {
            allow(&pk, s.num(), 1).ok()?;
            call_mocked(e, &x.issuer, "bump_nonce", (x.identity.clone(), 2u32).into_val(e)).ok()?;
            call_mocked(e, &x.issuer, "bump_nonce", (x.other_identity.clone(), 1u32).into_val(e)).ok()?;
            expect = Some(true);
            got = valid(&x.identity, 1, s.num(), &genuine_sig(1, 0, &data), &data);
        }
        "future-nonce" => {
            allow(&pk, s.num(), 1).ok()?;
            got = valid(&x.identity, 1, s.num(), &genuine_sig(1, 1, &data), &data);
        }
        "data-bit" => {
            allow(&pk, s.num(), 1).ok()?;
            let bit: usize = parts[1].parse().ok()?;
            // flips inside the payload and inside created_at (not valid_until: that changes expiry too, still must fail)
            let d2 = bitflip(&data, bit);
            got = valid(&x.identity, 1, s.num(), &genuine_sig(1, 0, &data), &d2);
        }
        "sig-bit" => {
            allow(&pk, s.num(), 1).ok()?;
            let bit: usize = parts[1].parse().ok()?;
            let sig = genuine_sig(1, 0, &data);
            let off = pk.len() * 8; // flip inside the signature part (after the public key)
            got = valid(&x.identity, 1, s.num(), &bitflip(&sig, off + bit), &data);
        }
        "key-never-allowed" => {
            got = valid(&x.identity, 1, s.num(), &genuine_sig(1, 0, &data), &data);
        }
        "key-removed" => {
            allow(&pk, s.num(), 1).ok()?;
            let sig = genuine_sig(1, 0, &data);
            if !valid(&x.identity, 1, s.num(), &sig, &data) {
                return Some((Some(true), false));
            }
            call_mocked(e, &x.issuer, "remove_key", (b(&pk), x.cti.clone(), s.num(), 1u32).into_val(e)).ok()?;
            got = valid(&x.identity, 1, s.num(), &sig, &data);
        }
        "key-allowed-for-other-topic-only" => {
            allow(&pk, s.num(), 2).ok()?;
            got = valid(&x.identity, 1, s.num(), &genuine_sig(1, 0, &data), &data);
        }
        "key-allowed-under-other-scheme-only" => {
            let other = if s == Scheme::Ed25519 { wrap::SECP256R1 } else { wrap::ED25519 };
            allow(&pk, other, 1).ok()?;
            got = valid(&x.identity, 1, s.num(), &genuine_sig(1, 0, &data), &data);
        }
        "other-allowed-key-presented" => {
            // signature by key A, sig_data carries allowed key B
            allow(&pk, s.num(), 1).ok()?;
            let (pk_b, sig_b) = s.sign(0x22, &message(net, &x.issuer, &x.identity, 1, 0, &data));
            allow(&pk_b, s.num(), 1).ok()?;
            let sig_a = genuine_sig(1, 0, &data);
            let mut mixed = pk_b.clone();
            mixed.extend(&sig_a[pk.len()..]);
            let _ = sig_b;
            got = valid(&x.identity, 1, s.num(), &mixed, &data);
        }
        "signed-by-unlisted-key" => {
            allow(&pk, s.num(), 1).ok()?;
            let sig_c = s.sign(0x33, &message(net, &x.issuer, &x.identity, 1, 0, &data)).1;
            got = valid(&x.identity, 1, s.num(), &sig_c, &data);
        }
        "time" => {
            allow(&pk, s.num(), 1).ok()?;
            let at: i64 = parts[1].parse().ok()?; // offset from valid_until
            let ts = (VALID_UNTIL as i64 + at) as u64;
            e.ledger().with_mut(|li| li.timestamp = ts);
            expect = if at < 0 { Some(true) } else if at == 0 { None } else { Some(false) };
            got = valid(&x.identity, 1, s.num(), &genuine_sig(1, 0, &data), &data);
        }
        "revoked" => {
            allow(&pk, s.num(), 1).ok()?;
            call_mocked(e, &x.issuer, "revoke", (x.identity.clone(), 1u32, b(&data), true).into_val(e)).ok()?;
            got = valid(&x.identity, 1, s.num(), &genuine_sig(1, 0, &data), &data);
        }
        "revoked-then-unrevoked" => {
            allow(&pk, s.num(), 1).ok()?;
            call_mocked(e, &x.issuer, "revoke", (x.identity.clone(), 1u32, b(&data), true).into_val(e)).ok()?;
            call_mocked(e, &x.issuer, "revoke", (x.identity.clone(), 1u32, b(&data), false).into_val(e)).ok()?;
            expect = Some(true);
            got = valid(&x.identity, 1, s.num(), &genuine_sig(1, 0, &data), &data);
        }
        "other-claim-revoked" => {
            allow(&pk, s.num(), 1).ok()?;
            let d2 = claim_data(b"other-claim");
            call_mocked(e, &x.issuer, "revoke", (x.identity.clone(), 1u32, b(&d2), true).into_val(e)).ok()?;
            call_mocked(e, &x.issuer, "revoke", (x.other_identity.clone(), 1u32, b(&data), true).into_val(e)).ok()?;
            expect = Some(true);
            got = valid(&x.identity, 1, s.num(), &genuine_sig(1, 0, &data), &data);
        }
        "revoked-survives-nonce-bump" => {
            allow(&pk, s.num(), 1).ok()?;
            call_mocked(e, &x.issuer, "revoke", (x.identity.clone(), 1u32, b(&data), true).into_val(e)).ok()?;
            call_mocked(e, &x.issuer, "bump_nonce", (x.identity.clone(), 1u32).into_val(e)).ok()?;
            got = valid(&x.identity, 1, s.num(), &genuine_sig(1, 1, &data), &data);
        }
        "revoked-then-ledgers-pass" => {
            // the revocation must outlive any number of ledgers (only the sequence moves: the
            // claim itself stays within its validity period)
            allow(&pk, s.num(), 1).ok()?;
            call_mocked(e, &x.issuer, "revoke", (x.identity.clone(), 1u32, b(&data), true).into_val(e)).ok()?;
            let n: u32 = parts[1].parse().ok()?;
            e.ledger().with_mut(|li| li.sequence_number += n);
            got = valid(&x.identity, 1, s.num(), &genuine_sig(1, 0, &data), &data);
        }
        "nonce-bumped-then-ledgers-pass" => {
            allow(&pk, s.num(), 1).ok()?;
            let sig = genuine_sig(1, 0, &data);
            call_mocked(e, &x.issuer, "bump_nonce", (x.identity.clone(), 1u32).into_val(e)).ok()?;
            let n: u32 = parts[1].parse().ok()?;
            e.ledger().with_mut(|li| li.sequence_number += n);
            got = valid(&x.identity, 1, s.num(), &sig, &data);
        }
        "genuine-after-ledgers-pass" => {
            // the key authorization must not silently lapse either
            allow(&pk, s.num(), 1).ok()?;
            let n: u32 = parts[1].parse().ok()?;
            e.ledger().with_mut(|li| li.sequence_number += n);
            expect = Some(true);
            got = valid(&x.identity, 1, s.num(), &genuine_sig(1, 0, &data), &data);
        }
        "sig-data-truncated" => {
            allow(&pk, s.num(), 1).ok()?;
            let sig = genuine_sig(1, 0, &data);
            got = valid(&x.identity, 1, s.num(), &sig[..sig.len() - 1], &data);
        }
        "sig-data-extended" => {
            allow(&pk, s.num(), 1).ok()?;
            let mut sig = genuine_sig(1, 0, &data);
            sig.push(0);
            got = valid(&x.identity, 1, s.num(), &sig, &data);
        }
        "wrong-scheme-number" => {
            allow(&pk, s.num(), 1).ok()?;
            got = valid(&x.identity, 1, 999, &genuine_sig(1, 0, &data), &data);
        }
        "add-claim-genuine" => {
            allow(&pk, s.num(), 1).ok()?;
            expect = Some(true);
            got = call_mocked(e, &x.identity, "add_claim", (1u32, s.num(), x.issuer.clone(), b(&genuine_sig(1, 0, &data)), b(&data), SString::from_str(e, "u")).into_val(e)).is_ok();
        }
        "add-claim-forged" => {
            allow(&pk, s.num(), 1).ok()?;
            let sig = s.sign(0x33, &message(net, &x.issuer, &x.identity, 1, 0, &data)).1;
            got = call_mocked(e, &x.identity, "add_claim", (1u32, s.num(), x.issuer.clone(), b(&sig), b(&data), SString::from_str(e, "u")).into_val(e)).is_ok();
        }
        "add-claim-for-other-identity" => {
            allow(&pk, s.num(), 1).ok()?;
            got = call_mocked(e, &x.other_identity, "add_claim", (1u32, s.num(), x.issuer.clone(), b(&genuine_sig(1, 0, &data)), b(&data), SString::from_str(e, "u")).into_val(e)).is_ok();
        }
        _ => return None,
    }
    Some((expect, got))
}

// =============================================================================================
// Layer 1b (BFS world `claim-issuer-keys`): key management histories of an issuer assembled from
// the library helpers. After every accepted step a genuine claim signed by each key for each topic
// is presented: the issuer must confirm it exactly when that key is currently allowed for that
// topic (at any registry), the claim is not revoked and carries the current nonce.

#[derive(Clone, Debug, PartialEq, Eq)]
enum KOp {
    Allow { k: usize, r: usize, t: u32 },
    Remove { k: usize, r: usize, t: u32 },
    Bump { t: u32 },
    Revoke { k: usize, t: u32, on: bool },
    /// probe on a rebuilt copy: 600000 ledgers pass without a call; key authorizations and nonces
    /// must be the same (judged with claims whose validity period covers the idle time)
    IdleProbe,
}

#[derive(Clone, Debug, PartialEq, Eq, Hash)]
struct KModel {
    allowed: [[[bool; 2]; 2]; 2], // [key][registry][topic-1]
    nonce: [u32; 2],
    revoked: [[bool; 2]; 2], // [key][topic-1]: the claim (data) signed by key k for topic t
}

struct Keys {
    thorough: bool,
}

struct KInst {
    e: Env,
    issuer: Address,
    identity: Address,
    regs: [Address; 2],
}

const KEY_SEEDS: [u8; 2] = [0x11, 0x22];

impl Keys {
    fn pk(k: usize) -> Vec<u8> {
        Scheme::Ed25519.sign(KEY_SEEDS[k], b"x").0
    }
    /// the same payload for both topics: a revocation is per (identity, topic, data), so revoking it
    /// for one topic must not touch the other
    fn data(k: usize, _t: u32) -> Vec<u8> {
        claim_data(format!("claim-by-key-{k}").as_bytes())
    }
    fn exec(&self, i: &KInst, op: &KOp) -> bool {
        let e = &i.e;
        let b = |v: &[u8]| Bytes::from_slice(e, v);
        match op {
            KOp::Allow { k, r, t } => call_mocked(e, &i.issuer, "allow_key", (b(&Self::pk(*k)), i.regs[*r].clone(), wrap::ED25519, *t).into_val(e)).is_ok(),
            KOp::Remove { k, r, t } => call_mocked(e, &i.issuer, "remove_key", (b(&Self::pk(*k)), i.regs[*r].clone(), wrap::ED25519, *t).into_val(e)).is_ok(),
            KOp::Bump { t } => call_mocked(e, &i.issuer, "bump_nonce", (i.identity.clone(), *t).into_val(e)).is_ok(),
            KOp::Revoke { k, t, on } => call_mocked(e, &i.issuer, "revoke", (i.identity.clone(), *t, b(&Self::data(*k, *t)), *on).into_val(e)).is_ok(),
            KOp::IdleProbe => false,
        }
    }
    fn confirms(&self, i: &KInst, k: usize, t: u32, nonce: u32) -> bool {
        self.confirms_data(i, k, t, nonce, Self::data(k, t))
    }
    /// a claim of the same issuer whose validity period reaches far beyond the idle time
    fn long_lived(k: usize, t: u32) -> Vec<u8> {
        let mut d = (T0 - 10).to_be_bytes().to_vec();
        d.extend((T0 + 1_000_000_000).to_be_bytes());
        d.extend(format!("long-lived-claim-by-key-{k}-for-topic-{t}").as_bytes());
        d
    }
    fn confirms_data(&self, i: &KInst, k: usize, t: u32, nonce: u32, data: Vec<u8>) -> bool {
        let e = &i.e;
        let sig = Scheme::Ed25519.sign(KEY_SEEDS[k], &message([7u8; 32], &i.issuer, &i.identity, t, nonce, &data)).1;
        view(e, &i.issuer, "is_claim_valid", (i.identity.clone(), t, wrap::ED25519, Bytes::from_slice(e, &sig), Bytes::from_slice(e, &data)).into_val(e)).is_ok()
    }
}

impl World for Keys {
    type Op = KOp;
    type Model = KModel;
    type Inst = KInst;

    fn name(&self) -> String {
        "claim-issuer-keys".into()
    }
    fn fresh(&self, _seed: usize) -> (KInst, KModel) {
        let e = envx::mk_env(100);
        let issuer = e.register(wrap::RealIssuer, ());
        let identity = e.register(wrap::IdentityWrap, ());
        let regs = [e.register(wrap::CtiWrap, ()), e.register(wrap::CtiWrap, ())];
        for r in &regs {
            let mut ts: SVec<u32> = SVec::new(&e);
            for t in TOPICS {
                call_mocked(&e, r, "add_claim_topic", (t,).into_val(&e)).expect("topic");
                ts.push_back(t);
            }
            call_mocked(&e, r, "add_trusted_issuer", (issuer.clone(), ts).into_val(&e)).expect("issuer");
        }
        (KInst { e, issuer, identity, regs }, KModel { allowed: [[[false; 2]; 2]; 2], nonce: [0; 2], revoked: [[false; 2]; 2] })
    }
    fn ops(&self, _i: &KInst, m: &KModel, _d: usize) -> Vec<KOp> {
        let mut v = vec![];
        for k in 0..2 {
            for r in 0..2 {
                for t in TOPICS {
                    v.push(KOp::Allow { k, r, t });
                    v.push(KOp::Remove { k, r, t });
                }
            }
        }
        for t in TOPICS {
            if m.nonce[(t - 1) as usize] < 1 {
                v.push(KOp::Bump { t });
            }
        }
        if self.thorough {
            for t in TOPICS {
                v.push(KOp::Revoke { k: 0, t, on: !m.revoked[0][(t - 1) as usize] });
            }
        } else {
            for t in TOPICS {
                v.push(KOp::Revoke { k: 0, t, on: !m.revoked[0][(t - 1) as usize] });
            }
        }
        v.push(KOp::IdleProbe);
        v
    }
    fn kind(&self, op: &KOp) -> String {
        match op {
            KOp::Allow { .. } => "allow_key",
            KOp::Remove { .. } => "remove_key",
            KOp::Bump { .. } => "invalidate_claim_signatures",
            KOp::Revoke { .. } => "set_claim_revoked",
            KOp::IdleProbe => "idle-probe",
        }
        .into()
    }
    fn apply(&self, i: &mut KInst, op: &KOp) {
        self.exec(i, op);
    }
    fn step(&self, i: &mut KInst, m: &mut KModel, op: &KOp, cx: &mut StepCtx<Self>) -> Result<bool, Violation> {
        if matches!(op, KOp::IdleProbe) {
            let copy = cx.rebuild();
            envx::advance(&copy.e, 600_000);
            for k in 0..2 {
                for t in TOPICS {
                    let ti = (t - 1) as usize;
                    let allowed = (0..2).any(|r| m.allowed[k][r][ti]);
                    let got = self.confirms_data(&copy, k, t, m.nonce[ti], Self::long_lived(k, t));
                    ensure!(
                        got == allowed,
                        "state-survives-idle",
                        "after 600000 idle ledgers a genuine long-lived claim for topic {t} signed by K{} (nonce {}) is {} although the key is {} for the topic (authorizations {:?})",
                        k + 1,
                        m.nonce[ti],
                        if got { "confirmed" } else { "rejected" },
                        if allowed { "allowed" } else { "not allowed" },
                        m.allowed[k]
                    );
                    if m.nonce[ti] > 0 {
                        ensure!(!self.confirms_data(&copy, k, t, m.nonce[ti] - 1, Self::long_lived(k, t)), "state-survives-idle", "after 600000 idle ledgers a claim over the superseded nonce {} is confirmed again", m.nonce[ti] - 1);
                    }
                }
            }
            cx.stats.count("idle-probes", 1);
            return Ok(false);
        }
        if !self.exec(i, op) {
            return Ok(false);
        }
        match op {
            KOp::Allow { k, r, t } => m.allowed[*k][*r][(*t - 1) as usize] = true,
            KOp::Remove { k, r, t } => m.allowed[*k][*r][(*t - 1) as usize] = false,
            KOp::Bump { t } => m.nonce[(*t - 1) as usize] += 1,
            KOp::Revoke { k, t, on } => m.revoked[*k][(*t - 1) as usize] = *on,
            KOp::IdleProbe => unreachable!(),
        }
        for k in 0..2 {
            for t in TOPICS {
                let ti = (t - 1) as usize;
                let allowed = (0..2).any(|r| m.allowed[k][r][ti]);
                let want = allowed && !m.revoked[k][ti];
                let got = self.confirms(i, k, t, m.nonce[ti]);
                cx.stats.count(if want { "issuer-expected-to-confirm" } else { "issuer-expected-to-reject" }, 1);
                ensure!(
                    got == want,
                    if got { "invalid-claim-confirmed" } else { "genuine-claim-rejected" },
                    "after {:?}: a genuine claim for topic {t} signed by key K{} (current nonce {}) is {} by the issuer, but that key is {} for the topic (authorizations [registry][topic] {:?}) and the claim is {}",
                    op,
                    k + 1,
                    m.nonce[ti],
                    if got { "confirmed" } else { "rejected" },
                    if allowed { "currently allowed" } else { "not allowed" },
                    m.allowed[k],
                    if m.revoked[k][ti] { "revoked" } else { "not revoked" }
                );
                if m.nonce[ti] > 0 {
                    ensure!(!self.confirms(i, k, t, m.nonce[ti] - 1), "invalid-claim-confirmed", "after {:?}: a claim for topic {t} signed by K{} over the superseded nonce {} is confirmed", op, k + 1, m.nonce[ti] - 1);
                }
            }
        }
        Ok(true)
    }
    fn key(&self, i: &KInst) -> [u8; 32] {
        envx::storage_digest(&i.e, false)
    }
    fn model_digest(&self, m: &KModel) -> u64 {
        vh::engine::dig(m)
    }
}

// =============================================================================================
// Layer 2b (stateless enumeration `hostile-identity-contract`): the account's identity contract is
// not the library's and files claims wrongly: under the id of (issuer I1, required topic 1) it serves
// a claim whose own fields say topic t / issuer i and whose issuer-side rendering is for topic s.
// The verdict must be: verified exactly when the served claim IS a topic-1 claim of I1 that I1 confirms.

fn hostile_case(case: &str) -> Result<(bool, bool), String> {
    let p: Vec<u32> = case.split('-').filter_map(|x| x.parse().ok()).collect();
    if p.len() != 4 {
        return Err("bad case".into());
    }
    let (field_topic, field_issuer, sig_topic, listed_topic) = (p[0], p[1] as usize, p[2], p[3]);
    let e = envx::mk_env(100);
    let cti = e.register(wrap::CtiWrap, ());
    let irs = e.register(wrap::IrsWrap, ());
    let verifier = e.register(wrap::VerifierWrap, (cti.clone(), irs.clone()));
    let issuers = [e.register(wrap::MockIssuer, ()), e.register(wrap::MockIssuer, ())];
    let identity = e.register(wrap::MockIdentity, ());
    let helper = e.register(wrap::IdentityWrap, ());
    let account = Address::generate(&e);
    let go = |c: &Address, f: &str, a: SVec<Val>| call_mocked(&e, c, f, a).map_err(|x| format!("{f}: {x:?}"));
    go(&irs, "add_identity", (account.clone(), identity.clone()).into_val(&e))?;
    go(&cti, "add_claim_topic", (1u32,).into_val(&e))?;
    let mut ts: SVec<u32> = SVec::new(&e);
    ts.push_back(1);
    // both issuers are trusted for the required topic 1 (and nothing else)
    for i in &issuers {
        go(&cti, "add_trusted_issuer", (i.clone(), ts.clone()).into_val(&e))?;
    }
    let id1 = view(&e, &helper, "claim_id", (issuers[0].clone(), 1u32).into_val(&e)).map_err(|x| format!("claim_id: {x:?}"))?;
    let claim = stellar_tokens::rwa::identity_claims::Claim {
        topic: field_topic,
        scheme: 101,
        issuer: issuers[field_issuer].clone(),
        signature: Bytes::from_array(&e, &[1, sig_topic as u8, 7]),
        data: Bytes::from_array(&e, &[7]),
        uri: SString::from_str(&e, "uri"),
    };
    go(&identity, "serve", (listed_topic, BytesN::<32>::try_from_val(&e, &id1).unwrap(), claim).into_val(&e))?;
    let got = view(&e, &verifier, "verify_identity", (account,).into_val(&e)).is_ok();
    // the only claim the identity holds counts iff it is listed for topic 1, says topic 1 and issuer I1
    // (the id it is filed under), and I1 confirms it as a topic-1 claim
    let want = listed_topic == 1 && field_topic == 1 && field_issuer == 0 && sig_topic == 1;
    Ok((want, got))
}

fn layer2b(r: &mut Runner) {
    if let Some(case) = r.replay_case("hostile-identity-contract") {
        match hostile_case(&case) {
            Ok((want, got)) => println!("case {case}: verify_identity ok = {got}, statement expects {want} -> {}", if want == got { "ok" } else { "VIOLATED" }),
            Err(x) => println!("case {case}: {x}"),
        }
        return;
    }
    let Some(rep) = r.report() else { return };
    let (mut acc, mut rej) = (0u64, 0u64);
    for ft in [1u32, 2] {
        for fi in [0u32, 1] {
            for st in [1u32, 2] {
                for lt in [1u32, 2] {
                    let case = format!("{ft}-{fi}-{st}-{lt}");
                    rep.evaluations += 1;
                    rep.distinct_nontrivial += 1;
                    match hostile_case(&case) {
                        Err(x) => rep.machinery_error(&format!("layer 2b: {case}: {x}")),
                        Ok((want, got)) => {
                            if got {
                                acc += 1
                            } else {
                                rej += 1
                            }
                            if want != got {
                                rep.case_violation(
                                    "hostile-identity-contract",
                                    if got { "verified-without-valid-claims" } else { "valid-identity-rejected" },
                                    "misfiled-claim",
                                    case.clone(),
                                    format!(
                                        "identity contract serves, under the id of (I1, topic 1) and listed for topic {lt}, a claim whose fields say topic {ft} / issuer I{} and which the issuer would confirm for topic {st}: verify_identity ok = {got}, the statement requires {want} (required topic: 1)",
                                        fi + 1
                                    ),
                                );
                            }
                        }
                    }
                }
            }
        }
    }
    rep.extra("hostile_identity_contract_cases", json!({"verified": acc, "rejected": rej}));
    if acc == 0 || rej == 0 {
        rep.machinery_error("layer 2b vacuous: no verified or no rejected case");
    }
}

fn scenario_names(tier: Tier) -> Vec<String> {
    let mut v: Vec<String> = [
        "genuine",
        "other-network",
        "other-issuer",
        "other-identity",
        "presented-for-other-identity",
        "other-topic",
        "nonce-bumped-after-signing",
        "signed-with-new-nonce-after-bump",
        "bump-of-other-topic-keeps-claim",
        "future-nonce",
        "key-never-allowed",
        "key-removed",
        "key-allowed-for-other-topic-only",
        "key-allowed-under-other-scheme-only",
        "other-allowed-key-presented",
        "signed-by-unlisted-key",
        "time:-1",
        "time:0",
        "time:1",
        "time:-1000",
        "time:100000",
        "revoked",
        "revoked-then-unrevoked",
        "other-claim-revoked",
        "revoked-survives-nonce-bump",
        "revoked-then-ledgers-pass:1",
        "revoked-then-ledgers-pass:20",
        "revoked-then-ledgers-pass:100000",
        "nonce-bumped-then-ledgers-pass:1",
        "nonce-bumped-then-ledgers-pass:100000",
        "genuine-after-ledgers-pass:1",
        "genuine-after-ledgers-pass:100000",
        "sig-data-truncated",
        "sig-data-extended",
        "wrong-scheme-number",
        "add-claim-genuine",
        "add-claim-forged",
        "add-claim-for-other-identity",
    ]
    .iter()
    .map(|s| s.to_string())
    .collect();
    let data_bits = claim_data(b"kyc-passed").len() * 8;
    let step = tier.pick(7, 1);
    for bit in (0..data_bits).step_by(step) {
        v.push(format!("data-bit:{bit}"));
    }
    for bit in (0..512).step_by(tier.pick(5, 1)) {
        v.push(format!("sig-bit:{bit}"));
    }
    v
}

fn eval_case(case: &str) -> Result<(Option<bool>, bool), String> {
    let (sn, name) = case.split_once('/').ok_or("bad case")?;
    let s = match sn {
        "ed25519" => Scheme::Ed25519,
        "secp256k1" => Scheme::Secp256k1,
        "secp256r1" => Scheme::Secp256r1,
        _ => return Err("bad scheme".into()),
    };
    scenario(s, name).ok_or_else(|| format!("scenario {case} could not be set up"))
}

fn layer1(tier: Tier, r: &mut Runner) {
    if let Some(case) = r.replay_case("claim-issuer") {
        match eval_case(&case) {
            Ok((exp, got)) => println!("case {case}: issuer confirms = {got}, statement expects {:?} -> {}", exp, if exp.map(|x| x == got).unwrap_or(true) { "ok" } else { "VIOLATED" }),
            Err(x) => println!("case {case}: {x}"),
        }
        return;
    }
    let Some(rep) = r.report() else { return };
    use rayon::prelude::*;
    let mut cases = vec![];
    for sn in ["ed25519", "secp256k1", "secp256r1"] {
        for n in scenario_names(tier) {
            cases.push(format!("{sn}/{n}"));
        }
    }
    let results: Vec<(String, Result<(Option<bool>, bool), String>)> = cases.par_iter().map(|c| (c.clone(), eval_case(c))).collect();
    let (mut accepted, mut rejected) = (0u64, 0u64);
    for (c, res) in results {
        rep.evaluations += 1;
        rep.distinct_nontrivial += 1;
        match res {
            Err(x) => rep.machinery_error(&format!("layer 1: {x}")),
            Ok((exp, got)) => {
                if got {
                    accepted += 1
                } else {
                    rejected += 1
                }
                if rep.evaluations % 97 == 1 {
                    rep.sample(json!({"claim-issuer-case": c, "expected": exp, "issuer_confirms": got}));
                }
                if let Some(x) = exp {
                    if x != got {
                        let kind = c.split('/').nth(1).unwrap_or("").split(':').next().unwrap_or("").to_string();
                        rep.case_violation(
                            "claim-issuer",
                            if got { "invalid-claim-confirmed" } else { "genuine-claim-rejected" },
                            &kind,
                            c.clone(),
                            format!("issuer built from the library helpers answered confirm={got} for scenario {c}; the statement requires {x}"),
                        );
                    }
                }
            }
        }
    }
    rep.extra("claim_issuer_scenarios", json!({"accepted": accepted, "rejected": rejected}));
    if accepted == 0 || rejected == 0 {
        rep.machinery_error("layer 1 vacuous: no accepted or no rejected scenario");
    }
}

fn main() {
    main_with(
        "C15",
        "model_checking",
        "layer 2: level-BFS over add/remove claim topic, add/remove/update trusted issuer (topic lists {1},{2},{1,2}), add/remove claim (issuer, topic), issuer answer flips, from an empty registry and from a fully satisfied one; after every accepted step verify_identity is compared with the statement's predicate computed from the registry's independent getters. layer 1: for each of 3 signature schemes, a genuine claim and every listed defect scenario (field-by-field message tampering, nonce, every k-th/every bit of data and signature, key allow/remove/topic/scheme, expiry positions, revocation) against an issuer assembled from the library helpers; message bytes are built in the harness",
        |tier: Tier, r: &mut Runner| {
            r.world(&Ver { thorough: tier == Tier::Thorough }, &Bounds::new(tier.pick(5, 7), tier.pick(30, 400)));
            layer1(tier, r);
            layer2b(r);
            r.world(&Keys { thorough: tier == Tier::Thorough }, &Bounds::new(tier.pick(6, 14), tier.pick(30, 400)));
            if let Some(rep) = r.report() {
                rep.require(
                    &["add_claim_topic", "remove_claim_topic", "add_trusted_issuer", "remove_trusted_issuer", "update_issuer_claim_topics", "add_claim", "remove_claim", "issuer-answer-flip", "allow_key", "remove_key", "invalidate_claim_signatures", "set_claim_revoked"],
                    &["add_claim_topic", "remove_claim_topic", "add_trusted_issuer", "remove_trusted_issuer", "add_claim", "remove_claim", "allow_key", "remove_key"],
                );
                rep.require_counter(&["verify-expected-ok", "verify-expected-fail", "issuer-expected-to-confirm", "issuer-expected-to-reject", "idle-probes"]);
            }
        },
    );
}
