//! C11 — an NFT moves only by its owner, its approved account or a live operator.
//!
//! Worlds: the `nft-sequential-minting` (Base), `nft-enumerable` and `nft-consecutive` example
//! contracts compiled from /repo's working tree (all three expose the full NonFungibleToken +
//! NonFungibleBurnable interface, so no wrapper contract is needed). Two tokens (0 owned by A,
//! 1 owned by B at the seed), four accounts A B C D. Every call of the alphabet runs under
//! ENFORCING authorization signed by exactly one chosen principal (or nobody): who signs is part
//! of the operation. min_temp_entry_ttl = 1, so a temporary entry lives exactly as long as the
//! contract asked for (DESIGN §2.2).
//!
//! Reference model (written from the property statement):
//!   token -> owner, token -> (approved, live_until), (owner, operator) -> live_until;
//!   an approval is live while ledger <= live_until; live_until 0 revokes; every accepted
//!   transfer / burn clears the token approval.
//! Direction of the oracles (the statement is a safety statement, "only"): a call the contract
//! ACCEPTS must have been signed by somebody the model allows —
//!   * transfer / transfer_from / burn / burn_from: the signer is the current owner, the live
//!     approved account of that token, or a live operator of the CURRENT owner;
//!   * approve (and the revocation approve(.., 0)): the signer is the owner or a live operator;
//!   * approve_for_all(owner, ..): the signer is `owner`;
//! a refusal is always acceptable (the engine checks that it leaves storage untouched); the vacuity
//! rule and the role counters demand that every gate was seen open and closed.
//! After every accepted step and every ledger advance owner_of(id), get_approved(id) and
//! is_approved_for_all(o, op) are compared with the model for all ids and all ordered pairs
//! (an expired approval has to read none / false), and every account that has just lost its
//! authority over a token (approval cleared by the move / revoked / replaced / expired, operator
//! dismissed / expired / operator of the former owner, former owner) tries every way of moving
//! or approving it and has to be refused (`probe_lost_authority`). These probes matter because
//! state merging makes "former approved account" indistinguishable from "stranger" as soon as
//! the contract really removed the entry: the BFS would never revisit such a state under that name.
//!
//! Worlds (see RULE): narrow / wide alphabets, with one, two or three accepted live values;
//! "+approvals-seeded" starts from approvals overwritten by shorter-lived ones (the temporary
//! entry outlives the approval, so only the contract's explicit comparison rejects it);
//! "+min-temp-ttl-16" runs with the network-default minimal temporary lifetime for the same reason.

use soroban_sdk::testutils::{Address as _, Ledger as _};
use soroban_sdk::{Address, Env, IntoVal, String as SString, TryFromVal, Val, Vec as SVec};
use std::collections::{BTreeMap, BTreeSet};
use vh::auth::{self, call_mocked, call_signed, view};
use vh::cli::{main_with, Runner};
use vh::engine::{Bounds, StepCtx, Violation, World};
use vh::ensure;
use vh::envx;
use vh::report::Tier;

#[path = "/repo/examples/nft-sequential-minting/src/contract.rs"]
mod base_example;
#[path = "/repo/examples/nft-consecutive/src/contract.rs"]
mod consecutive_example;
#[path = "../shared/nft_wrap.rs"]
mod nft_wrap;
#[path = "/repo/examples/nft-enumerable/src/contract.rs"]
mod enumerable_example;

#[derive(Clone, Copy, Debug, PartialEq, Eq, PartialOrd, Ord, Hash)]
enum W {
    A,
    B,
    C,
    D,
}
use W::*;
const ALL: [W; 4] = [A, B, C, D];
const TOKENS: usize = 2;
/// the signer of a call: one account, or nobody
type Sg = Option<W>;

impl W {
    fn ix(self) -> usize {
        self as usize
    }
    /// candidate recipients of a token held by `self`, most interesting first
    fn recipients(self) -> [W; 3] {
        match self {
            A => [B, C, D],
            B => [A, C, D],
            C => [A, B, D],
            D => [A, B, C],
        }
    }
    /// candidate approved accounts named by approver `self`
    fn approvables(self) -> [W; 3] {
        match self {
            A => [C, D, B],
            B => [C, D, A],
            C => [D, A, B],
            D => [C, A, B],
        }
    }
    /// candidate operators of owner `self` (the other seed owner is among the first two: an
    /// operator who holds tokens himself probes a swapped (owner, operator) key)
    fn operators(self) -> [W; 3] {
        match self {
            A => [D, B, C],
            B => [D, A, C],
            C => [D, A, B],
            D => [C, A, B],
        }
    }
}

#[derive(Clone, Debug, PartialEq, Eq)]
enum Op {
    Approve { approver: W, approved: W, id: u32, live: u32, by: Sg },
    ApproveAll { owner: W, op: W, live: u32, by: Sg },
    Transfer { from: W, to: W, id: u32, by: Sg },
    TransferFrom { spender: W, from: W, to: W, id: u32, by: Sg },
    Burn { from: W, id: u32, by: Sg },
    BurnFrom { spender: W, from: W, id: u32, by: Sg },
    Advance(u32),
}

#[derive(Clone, Copy, Debug, PartialEq, Eq)]
enum Live {
    Zero,
    NowM1,
    Now,
    NowP1,
    Max,
    MaxP1,
}

impl Live {
    fn at(self, now: u32, max: u32) -> u32 {
        match self {
            Live::Zero => 0,
            Live::NowM1 => now.saturating_sub(1),
            Live::Now => now,
            Live::NowP1 => now + 1,
            Live::Max => max,
            Live::MaxP1 => max.saturating_add(1),
        }
    }
}

#[derive(Clone, Debug)]
struct Model {
    now: u32,
    owner: [Option<W>; TOKENS],
    /// latest accepted approve of the token not yet revoked / cleared by a move (kept after its
    /// expiry: only entries with now <= live_until count, see `appr_live`)
    appr: [Option<(W, u32)>; TOKENS],
    /// (owner, operator) -> live_until of the latest accepted, not revoked approve_for_all
    oper: BTreeMap<(W, W), u32>,
    /// history fact used ONLY to name the role of a signer in the coverage counters. (Roles
    /// such as "approval revoked / cleared by a move" cannot be kept this way: the state after
    /// approve + revoke IS the state before, so the two histories are merged — those roles are
    /// exercised by the authority-loss probes in `step` instead.)
    former_owner: [BTreeSet<W>; TOKENS],
}

impl Model {
    fn appr_live(&self, id: usize) -> Option<W> {
        self.appr[id].filter(|(_, l)| self.now <= *l).map(|x| x.0)
    }
    fn oper_live(&self, o: W, s: W) -> bool {
        self.oper.get(&(o, s)).is_some_and(|l| self.now <= *l)
    }
    /// may `s` move token `id` (statement: current owner, live approved, live operator of the owner)
    fn may_move(&self, id: usize, s: W) -> bool {
        match self.owner[id] {
            None => false,
            Some(o) => s == o || self.appr_live(id) == Some(s) || self.oper_live(o, s),
        }
    }
    /// may `s` set / revoke the approval of token `id` (statement: owner or live operator)
    fn may_approve(&self, id: usize, s: W) -> bool {
        match self.owner[id] {
            None => false,
            Some(o) => s == o || self.oper_live(o, s),
        }
    }
    fn holders(&self) -> Vec<W> {
        ALL.into_iter().filter(|w| self.owner.contains(&Some(*w))).collect()
    }
    /// every role the signer has or had with respect to token `id`
    fn roles(&self, id: usize, s: Sg) -> Vec<&'static str> {
        let Some(s) = s else { return vec!["nobody"] };
        let mut r = vec![];
        let o = self.owner[id];
        if o == Some(s) {
            r.push("owner");
        }
        if let Some((a, l)) = self.appr[id] {
            if a == s {
                r.push(if self.now <= l { "approved" } else { "expired-approved" });
            }
        }
        if let Some(o) = o {
            if let Some(l) = self.oper.get(&(o, s)) {
                r.push(if self.now <= *l { "operator" } else { "expired-operator" });
            }
        }
        if self.former_owner[id].contains(&s) && o != Some(s) {
            r.push("former-owner");
        }
        if self.former_owner[id].iter().any(|f| Some(*f) != o && self.oper_live(*f, s)) {
            r.push("operator-of-former-owner");
        }
        if ALL.iter().any(|x| Some(*x) != o && !self.former_owner[id].contains(x) && self.oper_live(*x, s)) {
            r.push("operator-of-another-account");
        }
        if o.is_none() {
            r.push("token-burned");
        }
        if r.is_empty() {
            r.push("stranger");
        }
        r
    }
    fn describe(&self) -> String {
        let live_ops: Vec<String> =
            self.oper.iter().map(|((o, p), l)| format!("{o:?}->{p:?}@{l}{}", if self.now <= *l { "" } else { "(expired)" })).collect();
        format!("ledger {} owners {:?} approvals(approved,live_until) {:?} operators [{}]", self.now, self.owner, self.appr, live_ops.join(" "))
    }

    /// effect of an ACCEPTED operation
    fn apply(&mut self, op: &Op) {
        match op {
            Op::Approve { approved, id, live, .. } => {
                let id = *id as usize;
                self.appr[id] = if *live == 0 { None } else { Some((*approved, *live)) };
            }
            Op::ApproveAll { owner, op, live, .. } => {
                if *live == 0 {
                    self.oper.remove(&(*owner, *op));
                } else {
                    self.oper.insert((*owner, *op), *live);
                }
            }
            Op::Transfer { to, id, .. } | Op::TransferFrom { to, id, .. } => self.moved(*id as usize, Some(*to)),
            Op::Burn { id, .. } | Op::BurnFrom { id, .. } => self.moved(*id as usize, None),
            Op::Advance(k) => self.now += *k,
        }
    }
    fn moved(&mut self, id: usize, to: Option<W>) {
        self.appr[id] = None;
        if let Some(o) = self.owner[id] {
            self.former_owner[id].insert(o);
        }
        self.owner[id] = to;
    }
}

#[derive(Clone, Copy, Debug, PartialEq, Eq)]
enum Flavour {
    Base,
    Enumerable,
    Consecutive,
    /// Consecutive through the traits' default methods (wrapper contract): the override glue
    ConsecutiveDefaults,
}

#[derive(Clone)]
struct Cfg {
    label: &'static str,
    lives: Vec<Live>,
    /// how many candidates (recipients / approved accounts / operators) per principal: 2 or 3
    cands: usize,
    /// also transfer to the holder itself
    self_to: bool,
    /// approve_for_all proposed for accounts holding a token only
    holders_only: bool,
    /// burns are executed and checked but their successor states are not expanded
    burn_leaf: bool,
    /// every illegitimate named principal with every candidate and live value (else representatives)
    wide_refusals: bool,
}

struct Nft {
    flavour: Flavour,
    cfg: Cfg,
    start: u32,
    /// start from a state with approvals already in place (some overwritten by shorter ones)
    seeded: bool,
    /// minimal lifetime of a temporary entry: 1 (an entry lives exactly as long as asked for) or
    /// the network default 16 (an entry outlives a short live_until_ledger, so that only the
    /// contract's explicit expiry comparison stands between an expired approval and the token)
    min_temp_ttl: u32,
}

struct Inst {
    e: Env,
    c: Address,
    acc: [Address; 4],
    /// the contract's id of the tracked token k is k + off (off = 1 in the glue world, where the tracked
    /// tokens sit between an inferred-owner neighbour below and an explicit-owner neighbour above)
    off: u32,
}

impl Inst {
    fn a(&self, w: W) -> Address {
        self.acc[w.ix()].clone()
    }
    fn who(&self, a: &Address) -> Option<W> {
        ALL.into_iter().find(|w| self.acc[w.ix()] == *a)
    }
    fn signers(&self, by: Sg) -> Vec<Address> {
        by.map(|w| self.a(w)).into_iter().collect()
    }
}

fn args_of(i: &Inst, op: &Op) -> Option<(&'static str, SVec<Val>, Sg)> {
    let e = &i.e;
    Some(match op {
        Op::Approve { approver, approved, id, live, by } => ("approve", (i.a(*approver), i.a(*approved), *id + i.off, *live).into_val(e), *by),
        Op::ApproveAll { owner, op, live, by } => ("approve_for_all", (i.a(*owner), i.a(*op), *live).into_val(e), *by),
        Op::Transfer { from, to, id, by } => ("transfer", (i.a(*from), i.a(*to), *id + i.off).into_val(e), *by),
        Op::TransferFrom { spender, from, to, id, by } => ("transfer_from", (i.a(*spender), i.a(*from), i.a(*to), *id + i.off).into_val(e), *by),
        Op::Burn { from, id, by } => ("burn", (i.a(*from), *id + i.off).into_val(e), *by),
        Op::BurnFrom { spender, from, id, by } => ("burn_from", (i.a(*spender), i.a(*from), *id + i.off).into_val(e), *by),
        Op::Advance(_) => return None,
    })
}

/// the principal the call names as acting (from / spender / approver / owner)
fn named(op: &Op) -> Option<W> {
    match op {
        Op::Approve { approver, .. } => Some(*approver),
        Op::ApproveAll { owner, .. } => Some(*owner),
        Op::Transfer { from, .. } | Op::Burn { from, .. } => Some(*from),
        Op::TransferFrom { spender, .. } | Op::BurnFrom { spender, .. } => Some(*spender),
        Op::Advance(_) => None,
    }
}

impl Nft {
    fn exec(&self, i: &Inst, op: &Op) -> bool {
        match args_of(i, op) {
            Some((f, args, by)) => call_signed(&i.e, &i.c, f, args, &i.signers(by)).is_ok(),
            None => {
                if let Op::Advance(k) = op {
                    envx::advance(&i.e, *k);
                }
                true
            }
        }
    }

    fn exec_mocked(&self, i: &Inst, op: &Op) -> bool {
        match args_of(i, op) {
            Some((f, args, _)) => call_mocked(&i.e, &i.c, f, args).is_ok(),
            None => self.exec(i, op),
        }
    }

    fn seed_ops(&self, now: u32, max: u32) -> Vec<Op> {
        if !self.seeded {
            return vec![];
        }
        // token 0: approval for C overwritten by a shorter one (the entry's lifetime stays long);
        // A's operator D likewise; B has operator C (short) and approved D (long) for token 1
        vec![
            Op::Approve { approver: A, approved: C, id: 0, live: max, by: Some(A) },
            Op::Approve { approver: A, approved: C, id: 0, live: now + 1, by: Some(A) },
            Op::ApproveAll { owner: A, op: D, live: max, by: Some(A) },
            Op::ApproveAll { owner: A, op: D, live: now + 2, by: Some(A) },
            Op::ApproveAll { owner: B, op: C, live: now + 1, by: Some(B) },
            Op::Approve { approver: B, approved: D, id: 1, live: max, by: Some(B) },
        ]
    }

    fn owner_of(&self, i: &Inst, id: u32) -> Result<Option<W>, Violation> {
        self.owner_of_real(i, id + i.off)
    }
    fn owner_of_real(&self, i: &Inst, id: u32) -> Result<Option<W>, Violation> {
        let a: SVec<Val> = (id,).into_val(&i.e);
        match view(&i.e, &i.c, "owner_of", a) {
            Err(_) => Ok(None),
            Ok(v) => {
                let ad = Address::try_from_val(&i.e, &v).map_err(|_| Violation::new("getter", "owner_of: decode".into()))?;
                match i.who(&ad) {
                    Some(w) => Ok(Some(w)),
                    None => Err(Violation::new("owner", format!("owner_of({id}) is an address outside the universe"))),
                }
            }
        }
    }

    /// Ok(None): none (or, for a token without owner, a refusal); Ok(Some(w)): approved account
    fn get_approved(&self, i: &Inst, id: u32, exists: bool) -> Result<Option<W>, Violation> {
        let a: SVec<Val> = (id + i.off,).into_val(&i.e);
        match view(&i.e, &i.c, "get_approved", a) {
            Err(x) => {
                ensure!(!exists, "getter", "get_approved({}) of an existing token failed: {:?}", id, x);
                Ok(None)
            }
            Ok(v) => {
                let o = Option::<Address>::try_from_val(&i.e, &v).map_err(|_| Violation::new("getter", "get_approved: decode".into()))?;
                match o {
                    None => Ok(None),
                    Some(ad) => match i.who(&ad) {
                        Some(w) => Ok(Some(w)),
                        None => Err(Violation::new("approval", format!("get_approved({id}) is an address outside the universe"))),
                    },
                }
            }
        }
    }

    fn is_operator(&self, i: &Inst, o: W, p: W) -> Result<bool, Violation> {
        let a: SVec<Val> = (i.a(o), i.a(p)).into_val(&i.e);
        let v = view(&i.e, &i.c, "is_approved_for_all", a).map_err(|x| Violation::new("getter", format!("is_approved_for_all failed: {x:?}")))?;
        bool::try_from_val(&i.e, &v).map_err(|_| Violation::new("getter", "is_approved_for_all: decode".into()))
    }

    /// all getters of the property against the model
    fn compare(&self, i: &Inst, m: &Model, after: &str, cx: &mut StepCtx<Self>) -> Result<(), Violation> {
        let mut n = 0u64;
        if i.off > 0 {
            // the neighbours of the tracked tokens are never named in any call: nobody authorized moving them
            for (real, want) in [(0u32, A), (3u32, B)] {
                let o = self.owner_of_real(i, real)?;
                ensure!(
                    o == Some(want),
                    "move-authority",
                    "after {}: token {} (never named in any call, minted to {:?}) now reports owner {:?}: it changed hands without any authorization of its owner [{}]",
                    after,
                    real,
                    want,
                    o,
                    m.describe()
                );
            }
        }
        for id in 0..TOKENS {
            let o = self.owner_of(i, id as u32)?;
            ensure!(o == m.owner[id], "owner-lockstep", "owner_of({}) after {}: contract {:?}, model {:?} [{}]", id, after, o, m.owner[id], m.describe());
            let g = self.get_approved(i, id as u32, o.is_some())?;
            let want = m.appr_live(id);
            if g != want {
                let (oracle, why) = match (g, m.appr[id]) {
                    (Some(x), Some((a, l))) if x == a && m.now > l => ("expired-approval-reads-none", format!("the approval of {a:?} was live only until ledger {l}")),
                    (Some(_), None) => ("approval-cleared", "the model has no approval (never set, revoked, or cleared by a transfer / burn)".to_string()),
                    _ => ("approval-lockstep", format!("the model says {want:?}")),
                };
                ensure!(false, oracle, "get_approved({}) after {} returns {:?} at ledger {}, but {} [{}]", id, after, g, m.now, why, m.describe());
            }
            if m.appr[id].is_some() && want.is_none() {
                cx.stats.count("getter: expired approval reads none", 1);
            }
            n += 2;
        }
        for o in ALL {
            for p in ALL {
                let g = self.is_operator(i, o, p)?;
                let want = m.oper_live(o, p);
                if g != want {
                    if let Some(l) = m.oper.get(&(o, p)) {
                        ensure!(
                            m.now <= *l,
                            "expired-operator-reads-false",
                            "is_approved_for_all({:?},{:?}) after {} is true at ledger {} although it was live only until {} [{}]",
                            o,
                            p,
                            after,
                            m.now,
                            l,
                            m.describe()
                        );
                    }
                    ensure!(false, "operator-lockstep", "is_approved_for_all({:?},{:?}) after {}: contract {}, model {} [{}]", o, p, after, g, want, m.describe());
                }
                if m.oper.contains_key(&(o, p)) && !want {
                    cx.stats.count("getter: expired operator reads false", 1);
                }
                n += 1;
            }
        }
        cx.stats.count("getter-comparisons", n);
        Ok(())
    }
}

impl Nft {
    /// Every account that could move (or approve) a token before the accepted step and, by the
    /// model, cannot any more — approval cleared by the move, revoked, replaced, expired; operator
    /// dismissed, expired, or operator of the FORMER owner; former owner — immediately tries every
    /// way of moving (approving) it. All of these calls have to be refused (a refused call leaves
    /// the state untouched, so the probes do not disturb the exploration); they also run on the
    /// states of the last level, which the BFS does not expand.
    fn probe_lost_authority(&self, i: &Inst, pre: &Model, post: &Model, op: &Op, cx: &mut StepCtx<Self>) -> Result<(), Violation> {
        let kind = self.kind(op);
        let max = i.e.ledger().max_live_until_ledger();
        for id in 0..TOKENS {
            let idu = id as u32;
            for x in ALL {
                let mut role: Vec<&str> = vec![];
                if pre.owner[id] == Some(x) {
                    role.push("owner");
                }
                if pre.appr_live(id) == Some(x) {
                    role.push("approved");
                }
                if pre.owner[id].is_some_and(|o| pre.oper_live(o, x)) {
                    role.push("operator");
                }
                let role = role.join("+");
                let mut probes: Vec<Op> = vec![];
                if pre.may_move(id, x) && !post.may_move(id, x) {
                    let froms: BTreeSet<W> = [pre.owner[id], post.owner[id]].into_iter().flatten().collect();
                    for f in froms {
                        let to = if x != f { x } else { f.recipients()[0] };
                        probes.push(Op::TransferFrom { spender: x, from: f, to, id: idu, by: Some(x) });
                        probes.push(Op::BurnFrom { spender: x, from: f, id: idu, by: Some(x) });
                    }
                    probes.push(Op::Transfer { from: x, to: x.recipients()[0], id: idu, by: Some(x) });
                    probes.push(Op::Burn { from: x, id: idu, by: Some(x) });
                    cx.stats.count(&format!("probe: former {role} can no longer move the token after {kind}"), 1);
                }
                if pre.may_approve(id, x) && !post.may_approve(id, x) {
                    probes.push(Op::Approve { approver: x, approved: x.approvables()[0], id: idu, live: max, by: Some(x) });
                    if let Some(cur) = post.appr_live(id) {
                        probes.push(Op::Approve { approver: x, approved: cur, id: idu, live: 0, by: Some(x) });
                    }
                    cx.stats.count(&format!("probe: former {role} can no longer approve after {kind}"), 1);
                }
                for p in probes {
                    let accepted = self.exec(i, &p);
                    cx.stats.count("probe-calls", 1);
                    ensure!(
                        !accepted,
                        "lost-authority",
                        "after {:?}, {:?} (before the step: {} of token {}) is by the model no longer entitled, yet {:?} succeeded [before: {}] [after: {}]",
                        op,
                        x,
                        role,
                        id,
                        p,
                        pre.describe(),
                        post.describe()
                    );
                }
            }
        }
        Ok(())
    }
}

impl World for Nft {
    type Op = Op;
    type Model = Model;
    type Inst = Inst;

    fn name(&self) -> String {
        let f = match self.flavour {
            Flavour::Base => "nft-base",
            Flavour::Enumerable => "nft-enumerable",
            Flavour::Consecutive => "nft-consecutive",
            Flavour::ConsecutiveDefaults => "nft-consecutive-default-methods",
        };
        format!(
            "{f}/{}{}{}@{}",
            self.cfg.label,
            if self.seeded { "+approvals-seeded" } else { "" },
            if self.min_temp_ttl != 1 { format!("+min-temp-ttl-{}", self.min_temp_ttl) } else { String::new() },
            self.start
        )
    }

    fn seed_name(&self, _seed: usize) -> String {
        if self.seeded {
            "token 0 of A (approved C: max then now+1; operator D: max then now+2), token 1 of B (approved D: max; operator C: now+1)".into()
        } else {
            "token 0 of A, token 1 of B, no approvals".into()
        }
    }

    fn fresh(&self, _seed: usize) -> (Inst, Model) {
        let e = envx::mk_env(self.start);
        if self.min_temp_ttl != 1 {
            e.ledger().set_min_temp_entry_ttl(self.min_temp_ttl);
        }
        let acc: [Address; 4] = [Address::generate(&e), Address::generate(&e), Address::generate(&e), Address::generate(&e)];
        let adm = Address::generate(&e);
        for x in acc.iter() {
            auth::back(&e, x);
        }
        let ctor = (SString::from_str(&e, "https://u/"), SString::from_str(&e, "n"), SString::from_str(&e, "s"), adm.clone());
        let c = match self.flavour {
            Flavour::Base => e.register(base_example::ExampleContract, ctor),
            Flavour::Enumerable => e.register(enumerable_example::ExampleContract, ctor),
            Flavour::Consecutive => e.register(consecutive_example::ExampleContract, ctor),
            Flavour::ConsecutiveDefaults => e.register(nft_wrap::ConsNft, ctor),
        };
        let off = if matches!(self.flavour, Flavour::ConsecutiveDefaults) { 1 } else { 0 };
        let i = Inst { e, c, acc, off };
        let mint = |f: &str, a: SVec<Val>| {
            call_mocked(&i.e, &i.c, f, a).unwrap_or_else(|x| panic!("seed mint failed: {x:?}"));
        };
        match self.flavour {
            Flavour::Base | Flavour::Enumerable => {
                mint("mint", (i.a(A),).into_val(&i.e));
                mint("mint", (i.a(B),).into_val(&i.e));
            }
            Flavour::ConsecutiveDefaults => {
                // ids 0,1 of A | 2,3 of B; tracked: 1 (explicit owner entry, inferred neighbour 0 below) and
                // 2 (owner inferred from the entry of 3)
                mint("batch_mint", (i.a(A), 2u32).into_val(&i.e));
                mint("batch_mint", (i.a(B), 2u32).into_val(&i.e));
            }
            Flavour::Consecutive => {
                // ids 0 | 1,2: the owner of token 1 is inferred from the explicit owner entry of token 2
                mint("batch_mint", (i.a(A), 1u32).into_val(&i.e));
                mint("batch_mint", (i.a(B), 2u32).into_val(&i.e));
            }
        }
        let mut m = Model {
            now: self.start,
            owner: [Some(A), Some(B)],
            appr: [None, None],
            oper: BTreeMap::new(),
            former_owner: Default::default(),
        };
        let max = i.e.ledger().max_live_until_ledger();
        for op in self.seed_ops(self.start, max) {
            assert!(self.exec_mocked(&i, &op), "seed operation refused: {op:?}");
            m.apply(&op);
        }
        (i, m)
    }

    fn ops(&self, i: &Inst, m: &Model, _depth: usize) -> Vec<Op> {
        let now = envx::now(&i.e);
        let max = i.e.ledger().max_live_until_ledger();
        let c = &self.cfg;
        let mut lives: Vec<u32> = vec![];
        for l in &c.lives {
            let x = l.at(now, max);
            if !lives.contains(&x) {
                lives.push(x);
            }
        }
        let others = |w: W| -> Vec<Sg> {
            let mut v: Vec<Sg> = ALL.into_iter().filter(|x| *x != w).map(Some).collect();
            v.push(None);
            v
        };
        let mut v: Vec<Op> = vec![];

        // ---- approve / revoke -------------------------------------------------------------
        for id in 0..TOKENS {
            let idu = id as u32;
            for approver in ALL {
                let cands = &approver.approvables()[..c.cands];
                if m.may_approve(id, approver) || c.wide_refusals {
                    for approved in cands {
                        for live in &lives {
                            v.push(Op::Approve { approver, approved: *approved, id: idu, live: *live, by: Some(approver) });
                        }
                    }
                } else {
                    // named approver is neither owner nor live operator: grant and revocation
                    for live in [max, 0] {
                        v.push(Op::Approve { approver, approved: cands[0], id: idu, live, by: Some(approver) });
                    }
                    // ... also naming the currently approved account (revocation by a stranger)
                    if let Some(cur) = m.appr_live(id) {
                        v.push(Op::Approve { approver, approved: cur, id: idu, live: 0, by: Some(approver) });
                    }
                }
                if m.may_approve(id, approver) {
                    // legitimate named approver, somebody else (or nobody) signs
                    for by in others(approver) {
                        v.push(Op::Approve { approver, approved: cands[0], id: idu, live: max, by });
                        if let Some(cur) = m.appr_live(id) {
                            v.push(Op::Approve { approver, approved: cur, id: idu, live: 0, by });
                        }
                    }
                }
            }
        }

        // ---- approve_for_all / revoke_for_all ---------------------------------------------
        let holders = m.holders();
        for owner in ALL {
            if c.holders_only && !holders.contains(&owner) {
                continue;
            }
            for op in &owner.operators()[..c.cands] {
                for live in &lives {
                    v.push(Op::ApproveAll { owner, op: *op, live: *live, by: Some(owner) });
                }
                // somebody else (the would-be operator first) or nobody signs a grant / a revocation
                let mut bys = others(owner);
                bys.sort_by_key(|b| *b != Some(*op));
                if !c.wide_refusals {
                    bys.truncate(2);
                }
                for by in bys {
                    v.push(Op::ApproveAll { owner, op: *op, live: max, by });
                    if m.oper_live(owner, *op) {
                        v.push(Op::ApproveAll { owner, op: *op, live: 0, by });
                    }
                }
            }
        }

        // ---- moves ------------------------------------------------------------------------
        for id in 0..TOKENS {
            let idu = id as u32;
            let o = m.owner[id];
            let tos = |from: W| -> Vec<W> {
                let mut t: Vec<W> = from.recipients()[..c.cands].to_vec();
                if c.self_to {
                    t.push(from);
                }
                t
            };
            // transfer(from, to, id)
            for from in ALL {
                if o == Some(from) {
                    for to in tos(from) {
                        v.push(Op::Transfer { from, to, id: idu, by: Some(from) });
                    }
                    for by in others(from) {
                        v.push(Op::Transfer { from, to: from.recipients()[0], id: idu, by });
                    }
                } else {
                    v.push(Op::Transfer { from, to: from.recipients()[0], id: idu, by: Some(from) });
                }
            }
            // (spender, from) pairs: `from` is the owner (any spender), or the pair has some
            // standing although `from` is not the owner — spender names himself, is a live
            // operator of `from`, or is the token's live approved account; the remaining pairs
            // (a stranger naming a non-owner) are doubly illegitimate and tried in 'wide' worlds only
            let relevant = |spender: W, from: W| -> bool {
                c.wide_refusals || o == Some(from) || spender == from || m.oper_live(from, spender) || m.appr_live(id) == Some(spender)
            };
            // transfer_from(spender, from, to, id)
            for spender in ALL {
                for from in ALL {
                    if !relevant(spender, from) {
                        continue;
                    }
                    let legit = o == Some(from) && m.may_move(id, spender);
                    let to0 = if spender != from { spender } else { from.recipients()[0] };
                    if legit {
                        for to in tos(from) {
                            v.push(Op::TransferFrom { spender, from, to, id: idu, by: Some(spender) });
                        }
                        for by in others(spender) {
                            v.push(Op::TransferFrom { spender, from, to: to0, id: idu, by });
                        }
                    } else {
                        v.push(Op::TransferFrom { spender, from, to: to0, id: idu, by: Some(spender) });
                        if c.wide_refusals && to0 != from.recipients()[0] {
                            v.push(Op::TransferFrom { spender, from, to: from.recipients()[0], id: idu, by: Some(spender) });
                        }
                    }
                }
            }
            // burn(from, id)
            for from in ALL {
                v.push(Op::Burn { from, id: idu, by: Some(from) });
                if o == Some(from) {
                    for by in others(from) {
                        v.push(Op::Burn { from, id: idu, by });
                    }
                }
            }
            // burn_from(spender, from, id)
            for spender in ALL {
                for from in ALL {
                    if !relevant(spender, from) {
                        continue;
                    }
                    v.push(Op::BurnFrom { spender, from, id: idu, by: Some(spender) });
                    if o == Some(from) && m.may_move(id, spender) {
                        for by in others(spender) {
                            v.push(Op::BurnFrom { spender, from, id: idu, by });
                        }
                    }
                }
            }
        }
        v.push(Op::Advance(1));
        v.push(Op::Advance(2));

        // the generators overlap in a few corner cases: keep the first occurrence
        let mut seen: BTreeSet<String> = BTreeSet::new();
        v.retain(|op| seen.insert(format!("{op:?}")));
        v
    }

    fn kind(&self, op: &Op) -> String {
        match op {
            Op::Approve { live: 0, .. } => "revoke".into(),
            Op::Approve { .. } => "approve".into(),
            Op::ApproveAll { live: 0, .. } => "revoke_for_all".into(),
            Op::ApproveAll { .. } => "approve_for_all".into(),
            Op::Transfer { .. } => "transfer".into(),
            Op::TransferFrom { .. } => "transfer_from".into(),
            Op::Burn { .. } => "burn".into(),
            Op::BurnFrom { .. } => "burn_from".into(),
            Op::Advance(_) => "advance".into(),
        }
    }

    fn apply(&self, i: &mut Inst, op: &Op) {
        self.exec(i, op);
    }

    fn leaf_only(&self, op: &Op) -> bool {
        self.cfg.burn_leaf && matches!(op, Op::Burn { .. } | Op::BurnFrom { .. })
    }

    fn atomic_on_refusal(&self, op: &Op) -> bool {
        !matches!(op, Op::Advance(_))
    }

    fn step(&self, i: &mut Inst, m: &mut Model, op: &Op, cx: &mut StepCtx<Self>) -> Result<bool, Violation> {
        ensure!(m.now == envx::now(&i.e), "machinery", "model ledger {} != environment ledger {}", m.now, envx::now(&i.e));
        if cx.hist.is_empty() && matches!(op, Op::Advance(1)) {
            self.compare(i, m, "the seed", cx)?;
        }
        let ok = self.exec(i, op);
        let kind = self.kind(op);
        let by: Sg = match op {
            Op::Approve { by, .. }
            | Op::ApproveAll { by, .. }
            | Op::Transfer { by, .. }
            | Op::TransferFrom { by, .. }
            | Op::Burn { by, .. }
            | Op::BurnFrom { by, .. } => *by,
            Op::Advance(_) => None,
        };
        match op {
            Op::Advance(_) => {}
            Op::Approve { id, .. } => {
                let idx = *id as usize;
                let allowed = by.is_some_and(|s| m.may_approve(idx, s));
                let roles = m.roles(idx, by);
                if ok {
                    ensure!(
                        allowed,
                        "approve-authority",
                        "{} of token {} succeeded signed by {:?} (roles: {}), who is neither the owner nor a live operator of the owner [{}]",
                        kind,
                        id,
                        by,
                        roles.join(","),
                        m.describe()
                    );
                    for r in roles.iter().filter(|r| ["owner", "operator"].contains(r)) {
                        cx.stats.count(&format!("{kind} ok: signer is {r}"), 1);
                    }
                } else if !allowed {
                    if named(op).is_some_and(|n| m.may_approve(idx, n)) {
                        cx.stats.count(&format!("{kind} refused: legitimate named approver, signed by somebody else"), 1);
                    }
                    for r in &roles {
                        cx.stats.count(&format!("{kind} refused: signer is {r}"), 1);
                    }
                }
            }
            Op::ApproveAll { owner, op: p, .. } => {
                if ok {
                    ensure!(
                        by == Some(*owner),
                        "operator-authority",
                        "{} for owner {:?} / operator {:?} succeeded signed by {:?}: only the owner may appoint or dismiss his operators [{}]",
                        kind,
                        owner,
                        p,
                        by,
                        m.describe()
                    );
                } else if by != Some(*owner) {
                    let who = if by == Some(*p) {
                        "the would-be operator"
                    } else if by.is_none() {
                        "nobody"
                    } else {
                        "a third party"
                    };
                    cx.stats.count(&format!("{kind} refused: signed by {who}"), 1);
                }
            }
            Op::Transfer { id, .. } | Op::TransferFrom { id, .. } | Op::Burn { id, .. } | Op::BurnFrom { id, .. } => {
                let idx = *id as usize;
                let allowed = by.is_some_and(|s| m.may_move(idx, s));
                let roles = m.roles(idx, by);
                if ok {
                    ensure!(
                        allowed,
                        "move-authority",
                        "{} of token {} succeeded signed by {:?} (roles: {}), who is neither the current owner, nor the live approved account, nor a live operator of the current owner [{}]",
                        kind,
                        id,
                        by,
                        roles.join(","),
                        m.describe()
                    );
                    for r in roles.iter().filter(|r| ["owner", "approved", "operator"].contains(r)) {
                        cx.stats.count(&format!("move ok: signer is {r}"), 1);
                    }
                } else if !allowed {
                    if named(op).is_some_and(|n| m.may_move(idx, n)) {
                        cx.stats.count("move refused: legitimate named principal, signed by somebody else", 1);
                    }
                    for r in &roles {
                        cx.stats.count(&format!("move refused: signer is {r}"), 1);
                    }
                }
            }
        }
        if ok {
            let pre = m.clone();
            m.apply(op);
            // every getter of the property after every accepted call and every ledger advance
            // (a refused call leaves storage untouched — verified by the engine — and the getters
            // of this state were compared when it was reached)
            self.compare(i, m, &format!("{op:?}"), cx)?;
            self.probe_lost_authority(i, &pre, m, op, cx)?;
        }
        Ok(ok)
    }

    fn key(&self, i: &Inst) -> [u8; 32] {
        envx::storage_digest(&i.e, true)
    }

    fn model_key(&self, m: &Model) -> u64 {
        // the logical approvals (who, live_until) decide later verdicts and need not be a
        // function of storage (an implementation may keep an older entry's lifetime); expired
        // ones can never matter again and are left out
        let appr: Vec<Option<(W, u32)>> = (0..TOKENS).map(|id| m.appr[id].filter(|(_, l)| m.now <= *l)).collect();
        let oper: Vec<((W, W), u32)> = m.oper.iter().filter(|(_, l)| m.now <= **l).map(|(k, l)| (*k, *l)).collect();
        vh::engine::dig(&(appr, oper))
    }

    fn model_digest(&self, m: &Model) -> u64 {
        vh::engine::dig(&m.owner)
    }
}

/// one finite lifetime (live at now+1, expired at now+2) plus the refused / revoking values
const ONE_LIVE: [Live; 4] = [Live::Zero, Live::NowM1, Live::NowP1, Live::MaxP1];
const TWO_LIVES: [Live; 5] = [Live::Zero, Live::NowM1, Live::NowP1, Live::Max, Live::MaxP1];
const ALL_LIVES: [Live; 6] = [Live::Zero, Live::NowM1, Live::Now, Live::NowP1, Live::Max, Live::MaxP1];

fn cfg_narrow(lives: &[Live]) -> Cfg {
    let label = match lives.len() {
        4 => "narrow-1live",
        5 => "narrow-2lives",
        _ => "narrow-3lives",
    };
    Cfg { label, lives: lives.to_vec(), cands: 2, self_to: false, holders_only: true, burn_leaf: true, wide_refusals: false }
}

fn cfg_wide() -> Cfg {
    Cfg { label: "wide", lives: ALL_LIVES.to_vec(), cands: 3, self_to: true, holders_only: false, burn_leaf: false, wide_refusals: true }
}

const RULE: &str = "level-BFS over histories of approve(approver, approved, id, live) / approve_for_all(owner, operator, live) / revocations (live 0) / transfer / transfer_from / burn / burn_from / advance(1|2) on the real nft-sequential-minting (Base), nft-enumerable and nft-consecutive example contracts; 2 tokens (0 of A, 1 of B; consecutive: a third token 2 of B so that the owner of token 1 is inferred), 4 accounts A B C D; EVERY call under enforcing authorization signed by exactly one account or by nobody. Named principals (approver / owner / from / spender) range over all 4 accounts; a named principal the model allows is tried with every candidate recipient / approved account / operator and every live value signed by itself, and additionally signed by each other account and by nobody; a named principal the model does not allow is tried with representative arguments (grant and revocation; in narrow worlds a (spender, from) pair with from != owner only if spender = from, spender is a live operator of from, or spender is the live approved account; wide worlds: all pairs). Worlds: narrow = 2 candidates per principal, operators appointed by token holders only, burns checked but not expanded; wide = 3 candidates, transfer to self, any account appoints operators, burns expanded, all six live values; live values: 1live = {0, now-1, now+1, max+1}, 2lives = {0, now-1, now+1, max, max+1}, 3lives = {0, now-1, now, now+1, max, max+1}; +approvals-seeded = start from approvals already in place, two of them overwritten by shorter-lived ones (the storage entry outlives the approval); +min-temp-ttl-16 = network-default minimal temporary lifetime, so every short approval is outlived by its entry (elsewhere min_temp_entry_ttl = 1). Quick: narrow-1live depth 4, seeded narrow-2lives depth 3, ttl16 narrow-1live depth 3; thorough: narrow-1live depth 5, narrow-3lives depth 4, wide depth 3, seeded narrow-2lives depth 4, ttl16 narrow-1live depth 4; each for the 3 flavours. States merged by canonical storage digest + ledger + the model's live (who, live_until) approvals. Oracles: an accepted move is signed by the current owner / live approved account / live operator of the CURRENT owner; an accepted approve or revocation by the owner or a live operator; an accepted approve_for_all(owner, ..) by owner; after every accepted call and ledger advance owner_of / get_approved for both ids and is_approved_for_all for all 16 ordered pairs equal the model (expired reads none / false), and every account that lost its authority in that step (approval cleared by the move, revoked, replaced, expired; operator dismissed, expired or of the former owner; former owner) is refused on transfer / transfer_from / burn / burn_from / approve. non-trivial = distinct state reached through at least one accepted state-changing call";

fn main() {
    main_with("C11", "model_checking", RULE, |tier: Tier, r: &mut Runner| {
        let only = std::env::var("C11_ONLY").unwrap_or_default();
        let envd = |k: &str, d: usize| -> usize { std::env::var(k).ok().and_then(|x| x.parse().ok()).unwrap_or(d) };
        let flavours = [Flavour::Base, Flavour::Enumerable, Flavour::Consecutive];
        // one wall-clock budget per tier, shared by the worlds (each world gets what is left)
        let t0 = std::time::Instant::now();
        let budget: u64 = envd("C11_BUDGET", tier.pick(42, 570)) as u64;
        let run = |r: &mut Runner, w: Nft, depth: usize| {
            if only.is_empty() || w.name().contains(&only) {
                let left = budget.saturating_sub(t0.elapsed().as_secs()).max(1);
                r.world(&w, &Bounds::new(depth, left));
            }
        };
        let world = |f: Flavour, cfg: Cfg, seeded: bool| Nft { flavour: f, cfg, start: 100, seeded, min_temp_ttl: 1 };
        let world16 = |f: Flavour, cfg: Cfg| Nft { flavour: f, cfg, start: 100, seeded: false, min_temp_ttl: 16 };
        match tier {
            Tier::Quick => {
                for f in flavours {
                    run(r, world(f, cfg_narrow(&ONE_LIVE), false), envd("C11_D", 4));
                }
                for f in flavours {
                    // approvals already in place: also transfer a token to its own holder (the approval must go)
                    run(r, world(f, Cfg { self_to: true, ..cfg_narrow(&TWO_LIVES) }, true), envd("C11_DS", 3));
                }
                for f in flavours {
                    run(r, world16(f, cfg_narrow(&ONE_LIVE)), envd("C11_D16", 3));
                }
                // the override glue of the consecutive flavour (wrapper using the traits' default methods)
                run(r, world(Flavour::ConsecutiveDefaults, cfg_narrow(&ONE_LIVE), false), envd("C11_DG", 4));
                run(r, world(Flavour::ConsecutiveDefaults, Cfg { self_to: true, ..cfg_narrow(&TWO_LIVES) }, true), envd("C11_DGS", 3));
            }
            Tier::Thorough => {
                for f in flavours {
                    run(r, world(f, cfg_narrow(&ONE_LIVE), false), envd("C11_D", 5));
                }
                for f in flavours {
                    run(r, world(f, cfg_narrow(&ALL_LIVES), false), envd("C11_D3", 4));
                }
                for f in flavours {
                    run(r, world(f, cfg_wide(), false), envd("C11_DW", 3));
                }
                for f in flavours {
                    run(r, world(f, Cfg { self_to: true, ..cfg_narrow(&TWO_LIVES) }, true), envd("C11_DS", 4));
                }
                run(r, world(Flavour::ConsecutiveDefaults, cfg_narrow(&ONE_LIVE), false), envd("C11_DG", 4));
                run(r, world(Flavour::ConsecutiveDefaults, Cfg { self_to: true, ..cfg_narrow(&TWO_LIVES) }, true), envd("C11_DGS", 3));
                for f in flavours {
                    run(r, world16(f, cfg_narrow(&ONE_LIVE)), envd("C11_D16", 4));
                }
            }
        }
        if let Some(rep) = r.report() {
            let kinds = ["approve", "revoke", "approve_for_all", "revoke_for_all", "transfer", "transfer_from", "burn", "burn_from"];
            rep.require(&kinds, &kinds);
            if only.is_empty() {
                rep.require_counter(&[
                    "move ok: signer is owner",
                    "move ok: signer is approved",
                    "move ok: signer is operator",
                    "move refused: signer is stranger",
                    "move refused: signer is nobody",
                    "move refused: signer is expired-approved",
                    "move refused: signer is former-owner",
                    "move refused: signer is expired-operator",
                    "move refused: signer is operator-of-former-owner",
                    "move refused: signer is operator-of-another-account",
                    "move refused: legitimate named principal, signed by somebody else",
                    "approve ok: signer is owner",
                    "approve ok: signer is operator",
                    "revoke ok: signer is owner",
                    "revoke ok: signer is operator",
                    "approve refused: signer is stranger",
                    "approve refused: signer is approved",
                    "approve refused: signer is expired-operator",
                    "approve refused: signer is former-owner",
                    "approve refused: signer is operator-of-former-owner",
                    "approve refused: legitimate named approver, signed by somebody else",
                    "revoke refused: signer is stranger",
                    "approve_for_all refused: signed by the would-be operator",
                    "approve_for_all refused: signed by a third party",
                    "revoke_for_all refused: signed by a third party",
                    "probe: former approved can no longer move the token after transfer",
                    "probe: former approved can no longer move the token after transfer_from",
                    "probe: former approved can no longer move the token after revoke",
                    "probe: former approved can no longer move the token after approve",
                    "probe: former approved can no longer move the token after advance",
                    "probe: former operator can no longer move the token after transfer",
                    "probe: former operator can no longer move the token after revoke_for_all",
                    "probe: former operator can no longer move the token after advance",
                    "probe: former owner can no longer move the token after transfer",
                    "probe: former owner can no longer move the token after transfer_from",
                    "probe: former operator can no longer approve after revoke_for_all",
                    "probe: former operator can no longer approve after advance",
                    "probe: former operator can no longer approve after transfer",
                    "probe: former owner can no longer approve after transfer",
                    "getter: expired approval reads none",
                    "getter: expired operator reads false",
                ]);
            }
        }
    })
}
