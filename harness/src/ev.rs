//! Contract events of the last top-level invocation, decoded from their published XDR layout
//! (`#[contractevent]`: topics = [name, #[topic] fields…], data = map of the other fields).

use soroban_sdk::testutils::Events as _;
use soroban_sdk::xdr::{ContractEventBody, ScMapEntry, ScVal};
use soroban_sdk::{Address, Env, TryFromVal};

#[derive(Clone, Debug)]
pub struct Ev {
    pub contract: Option<Address>,
    pub name: String,
    pub topics: Vec<ScVal>,
    pub data: ScVal,
}

pub fn last_events(e: &Env) -> Vec<Ev> {
    let all = e.events().all();
    all.events()
        .iter()
        .map(|ce| {
            let ContractEventBody::V0(b) = &ce.body;
            let topics: Vec<ScVal> = b.topics.iter().cloned().collect();
            let name = match topics.first() {
                Some(ScVal::Symbol(s)) => s.to_utf8_string_lossy(),
                _ => String::new(),
            };
            let contract = ce.contract_id.as_ref().map(|id| {
                Address::try_from_val(e, &ScVal::Address(soroban_sdk::xdr::ScAddress::Contract(id.clone()))).expect("addr")
            });
            Ev { contract, name, topics, data: b.data.clone() }
        })
        .collect()
}

impl Ev {
    pub fn topic_addr(&self, e: &Env, idx: usize) -> Option<Address> {
        match self.topics.get(idx) {
            Some(v @ ScVal::Address(_)) => Address::try_from_val(e, v).ok(),
            _ => None,
        }
    }
    pub fn field(&self, key: &str) -> Option<ScVal> {
        if let ScVal::Map(Some(m)) = &self.data {
            for ScMapEntry { key: k, val } in m.iter() {
                if let ScVal::Symbol(s) = k {
                    if s.to_utf8_string_lossy() == key {
                        return Some(val.clone());
                    }
                }
            }
        }
        None
    }
    pub fn field_i128(&self, key: &str) -> Option<i128> {
        match self.field(key) {
            Some(ScVal::I128(p)) => Some(((p.hi as i128) << 64) | (p.lo as i128)),
            _ => None,
        }
    }
    pub fn field_u32(&self, key: &str) -> Option<u32> {
        match self.field(key) {
            Some(ScVal::U32(x)) => Some(x),
            _ => None,
        }
    }
}
