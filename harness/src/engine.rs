//! Deterministic level-BFS over operation histories of the real contracts (DESIGN §2.3).
//!
//! A state is identified with a history that reaches it: `soroban_sdk::Env` is neither `Clone`
//! nor `Send`, so every transition rebuilds the implementation from a fresh environment by
//! replaying the history (`World::fresh` + `World::apply`), then executes the new operation with
//! all oracles attached (`World::step`). The reference-model state travels with the frontier
//! node. After a *refused* operation the engine verifies that the canonical storage digest is
//! unchanged (failure atomicity) and then keeps using the same instance for the node's next
//! operation; after a successful one the instance is rebuilt.

use crate::report::{Report, ViolationRec};
use rayon::prelude::*;
use std::collections::{BTreeMap, HashMap};
use std::fmt::Debug;
use std::time::{Duration, Instant};

#[derive(Clone, Debug)]
pub struct Violation {
    pub oracle: String,
    pub detail: String,
}

impl Violation {
    pub fn new(oracle: &str, detail: String) -> Self {
        Self { oracle: oracle.to_string(), detail }
    }
}

#[macro_export]
macro_rules! ensure {
    ($cond:expr, $oracle:expr, $($fmt:tt)+) => {
        if !($cond) {
            return Err($crate::engine::Violation::new($oracle, format!($($fmt)+)));
        }
    };
}

/// Per-worker statistics, merged deterministically by the engine.
#[derive(Clone, Debug, Default)]
pub struct Stats {
    /// (operation kind) -> (ok, refused)
    pub ops: BTreeMap<String, (u64, u64)>,
    /// free-form counters (probes run, getter comparisons, …)
    pub counters: BTreeMap<String, u64>,
}

impl Stats {
    pub fn op(&mut self, kind: &str, ok: bool) {
        let e = self.ops.entry(kind.to_string()).or_default();
        if ok {
            e.0 += 1
        } else {
            e.1 += 1
        }
    }
    pub fn count(&mut self, k: &str, n: u64) {
        *self.counters.entry(k.to_string()).or_default() += n;
    }
    pub fn merge(&mut self, o: &Stats) {
        for (k, v) in &o.ops {
            let e = self.ops.entry(k.clone()).or_default();
            e.0 += v.0;
            e.1 += v.1;
        }
        for (k, v) in &o.counters {
            *self.counters.entry(k.clone()).or_default() += v;
        }
    }
}

/// Context handed to `World::step`: statistics sink and a way to rebuild the pre-state.
pub struct StepCtx<'a, W: World + ?Sized> {
    pub world: &'a W,
    pub seed: usize,
    pub hist: &'a [W::Op],
    pub stats: &'a mut Stats,
}

impl<'a, W: World + ?Sized> StepCtx<'a, W> {
    /// A fresh instance in the state *before* the operation being stepped.
    pub fn rebuild(&self) -> W::Inst {
        rebuild(self.world, self.seed, self.hist)
    }
}

pub trait World: Sync {
    type Op: Clone + Debug + Send + Sync;
    type Model: Clone + Send + Sync;
    type Inst;

    fn name(&self) -> String;
    /// Number of seed states (level 0 of the search).
    fn seeds(&self) -> usize {
        1
    }
    fn seed_name(&self, _seed: usize) -> String {
        "empty".into()
    }
    /// Fresh implementation instance and matching model for seed `seed`.
    fn fresh(&self, seed: usize) -> (Self::Inst, Self::Model);
    /// Concrete operations enabled in this state (state-relative arguments resolved).
    fn ops(&self, inst: &Self::Inst, m: &Self::Model, depth: usize) -> Vec<Self::Op>;
    /// Operation kind for the outcome histogram.
    fn kind(&self, op: &Self::Op) -> String;
    /// Replay without oracles.
    fn apply(&self, inst: &mut Self::Inst, op: &Self::Op);
    /// Execute `op` on the implementation, step the model, evaluate every oracle and probe.
    /// Returns whether the implementation accepted the operation.
    fn step(&self, inst: &mut Self::Inst, m: &mut Self::Model, op: &Self::Op, cx: &mut StepCtx<Self>) -> Result<bool, Violation>;
    /// Canonical state digest.
    fn key(&self, inst: &Self::Inst) -> [u8; 32];
    /// Digest of the model's observable state (differential oracle at merge time).
    fn model_digest(&self, _m: &Self::Model) -> u64 {
        0
    }
    /// Components of the model state that the implementation's storage does not determine
    /// (DESIGN §2.3); they are mixed into the state identity so that two histories are merged
    /// only if both the implementation state and these components coincide.
    fn model_key(&self, _m: &Self::Model) -> u64 {
        0
    }
    /// Whether a refused operation must leave the digest unchanged (true everywhere except for
    /// environment steps that are not contract calls).
    fn atomic_on_refusal(&self, _op: &Self::Op) -> bool {
        true
    }
    /// Whether a level with `frontier_len` states is expanded with one task per (state, operation)
    /// instead of one task per state (worlds whose single steps are expensive override this).
    fn wide_expand(&self, frontier_len: usize) -> bool {
        frontier_len <= 32
    }
    /// Operations that are probes only: executed and checked but never extend the frontier.
    fn leaf_only(&self, _op: &Self::Op) -> bool {
        false
    }
}

pub fn rebuild<W: World + ?Sized>(w: &W, seed: usize, hist: &[W::Op]) -> W::Inst {
    let (mut inst, _) = w.fresh(seed);
    for op in hist {
        w.apply(&mut inst, op);
    }
    inst
}

#[derive(Clone, Debug)]
pub struct Bounds {
    pub depth: usize,
    pub wall: Duration,
    /// stop expanding when the frontier exceeds this many states (reported as a cap)
    pub max_frontier: usize,
}

impl Bounds {
    pub fn new(depth: usize, wall_s: u64) -> Self {
        Self { depth, wall: Duration::from_secs(wall_s), max_frontier: 3_000_000 }
    }
}

struct Node<W: World + ?Sized> {
    seed: usize,
    hist: Vec<W::Op>,
    model: W::Model,
    changed: bool,
}

struct Succ<W: World + ?Sized> {
    op: W::Op,
    ok: bool,
    key: [u8; 32],
    model: W::Model,
    mdig: u64,
}

struct NodeOut<W: World + ?Sized> {
    succs: Vec<Succ<W>>,
    violations: Vec<(W::Op, Violation)>,
    stats: Stats,
    transitions: u64,
}

fn mix(mut k: [u8; 32], mk: u64) -> [u8; 32] {
    if mk != 0 {
        for (i, b) in mk.to_be_bytes().iter().enumerate() {
            k[i] ^= b;
            k[31 - i] = k[31 - i].wrapping_add(b.rotate_left(3));
        }
    }
    k
}

/// Stable 64-bit digest of anything `Hash` (SipHash with fixed keys).
pub fn dig<T: std::hash::Hash>(t: &T) -> u64 {
    use std::hash::Hasher;
    #[allow(deprecated)]
    let mut h = std::hash::SipHasher::new_with_keys(0x5eed, 0xf00d);
    t.hash(&mut h);
    h.finish() | 1
}

/// A refused step left a different digest: decide whether the refused call itself changed storage
/// (re-executed without oracles on a fresh rebuild) or whether only the world's read-only
/// observation calls did (getters may extend the lifetime of temporary entries).
fn refusal_changed_storage<W: World + ?Sized>(w: &W, node_seed: usize, hist: &[W::Op], op: &W::Op) -> bool {
    let mut j = rebuild(w, node_seed, hist);
    let k0 = w.key(&j);
    w.apply(&mut j, op);
    w.key(&j) != k0
}

fn fmt_hist<O: Debug>(h: &[O]) -> Vec<String> {
    h.iter().map(|o| format!("{o:?}")).collect()
}

/// As `expand`, but every operation of the node runs on its own rebuilt instance in parallel
/// (used while the frontier is too small to keep all cores busy).
fn expand_wide<W: World + ?Sized>(w: &W, node: &Node<W>, depth: usize) -> NodeOut<W> {
    let inst = rebuild(w, node.seed, &node.hist);
    let pre_key = w.key(&inst);
    let ops = w.ops(&inst, &node.model, depth);
    drop(inst);
    let parts: Vec<NodeOut<W>> = ops
        .par_iter()
        .map(|op| {
            let mut out = NodeOut::<W> { succs: vec![], violations: vec![], stats: Stats::default(), transitions: 1 };
            let mut inst = rebuild(w, node.seed, &node.hist);
            let mut m = node.model.clone();
            let kind = w.kind(op);
            let res = {
                let mut cx = StepCtx { world: w, seed: node.seed, hist: &node.hist, stats: &mut out.stats };
                w.step(&mut inst, &mut m, op, &mut cx)
            };
            match res {
                Err(v) => out.violations.push((op.clone(), v)),
                Ok(ok) => {
                    out.stats.op(&kind, ok);
                    let key = w.key(&inst);
                    if !ok && w.atomic_on_refusal(op) {
                        if key != pre_key && refusal_changed_storage(w, node.seed, &node.hist, op) {
                            out.violations.push((op.clone(), Violation::new("failure-atomicity", "a refused call changed contract storage".into())));
                        }
                    } else if !w.leaf_only(op) {
                        let mdig = w.model_digest(&m);
                        let key = mix(key, w.model_key(&m));
                        out.succs.push(Succ { op: op.clone(), ok, key, model: m, mdig });
                    }
                }
            }
            out
        })
        .collect();
    let mut out = NodeOut::<W> { succs: vec![], violations: vec![], stats: Stats::default(), transitions: 0 };
    for p in parts {
        out.succs.extend(p.succs);
        out.violations.extend(p.violations);
        out.stats.merge(&p.stats);
        out.transitions += p.transitions;
    }
    out
}

fn expand<W: World + ?Sized>(w: &W, node: &Node<W>, depth: usize) -> NodeOut<W> {
    let mut out = NodeOut::<W> { succs: vec![], violations: vec![], stats: Stats::default(), transitions: 0 };
    let mut inst = rebuild(w, node.seed, &node.hist);
    let pre_key = w.key(&inst);
    let ops = w.ops(&inst, &node.model, depth);
    let mut dirty = false;
    let mut reused = false;
    for op in ops {
        if dirty {
            inst = rebuild(w, node.seed, &node.hist);
            dirty = false;
            reused = false;
        }
        // a reused instance may have been touched by read-only observation calls of an earlier
        // refused step (getters may extend the lifetime of temporary entries): compare a refused
        // call with the digest taken immediately before it
        let pre_key = if reused { w.key(&inst) } else { pre_key };
        reused = true;
        let mut m = node.model.clone();
        let kind = w.kind(&op);
        let res = {
            let mut cx = StepCtx { world: w, seed: node.seed, hist: &node.hist, stats: &mut out.stats };
            w.step(&mut inst, &mut m, &op, &mut cx)
        };
        out.transitions += 1;
        match res {
            Err(v) => {
                out.violations.push((op, v));
                dirty = true;
            }
            Ok(ok) => {
                out.stats.op(&kind, ok);
                let key = w.key(&inst);
                if !ok && w.atomic_on_refusal(&op) {
                    if key != pre_key {
                        if refusal_changed_storage(w, node.seed, &node.hist, &op) {
                            out.violations.push((
                                op,
                                Violation::new("failure-atomicity", "a refused call changed contract storage".into()),
                            ));
                        }
                        dirty = true;
                        continue;
                    }
                    // refused and state unchanged: reuse the instance, nothing new to record
                    continue;
                }
                dirty = true;
                if w.leaf_only(&op) {
                    continue;
                }
                let mdig = w.model_digest(&m);
                let key = mix(key, w.model_key(&m));
                out.succs.push(Succ { op, ok, key, model: m, mdig });
            }
        }
    }
    out
}

/// Explore `w` breadth-first up to `b.depth`; everything found goes into `rep`.
pub fn explore<W: World + ?Sized>(w: &W, b: &Bounds, rep: &mut Report) {
    let t0 = Instant::now();
    let wname = w.name();
    // determinism self-test: greedy history built from the first successful ops, run twice.
    {
        let probe = |w: &W| -> (Vec<[u8; 32]>, Vec<String>) {
            let (mut inst, mut m) = w.fresh(0);
            let mut keys = vec![w.key(&inst)];
            let mut hist: Vec<W::Op> = vec![];
            for d in 0..3usize {
                let ops = w.ops(&inst, &m, d);
                let mut advanced = false;
                for op in ops.iter().take(40) {
                    let mut i2 = rebuild(w, 0, &hist);
                    let mut m2 = m.clone();
                    let mut st = Stats::default();
                    let mut cx = StepCtx { world: w, seed: 0, hist: &hist, stats: &mut st };
                    if let Ok(true) = w.step(&mut i2, &mut m2, op, &mut cx) {
                        if w.key(&i2) != *keys.last().unwrap() {
                            hist.push(op.clone());
                            keys.push(w.key(&i2));
                            inst = i2;
                            m = m2;
                            advanced = true;
                            break;
                        }
                    }
                }
                if !advanced {
                    break;
                }
            }
            let _ = &inst;
            (keys, fmt_hist(&hist))
        };
        let a = probe(w);
        let b2 = probe(w);
        if a != b2 {
            rep.machinery_error(&format!("determinism self-test failed in world {wname}: {:?} vs {:?}", a.1, b2.1));
            return;
        }
        rep.note(&format!("{wname}: determinism self-test ok on history {:?}", a.1));
    }

    let mut seen: HashMap<[u8; 32], u64> = HashMap::new();
    let mut frontier: Vec<Node<W>> = vec![];
    let mut nontrivial: u64 = 0;
    for s in 0..w.seeds() {
        let (inst, model) = w.fresh(s);
        let k = mix(w.key(&inst), w.model_key(&model));
        let md = w.model_digest(&model);
        if seen.insert(k, md).is_none() {
            frontier.push(Node { seed: s, hist: vec![], model, changed: false });
        }
    }
    let mut states = seen.len() as u64;
    let mut transitions: u64 = 0;
    let mut stats = Stats::default();
    let mut completed_depth = 0usize;
    let mut exhaustive = true;
    let mut cap_note = String::new();
    let mut viol_sigs: BTreeMap<String, ()> = BTreeMap::new();
    let mut samples: Vec<serde_json::Value> = vec![];

    for depth in 0..b.depth {
        if frontier.is_empty() {
            break;
        }
        if t0.elapsed() > b.wall {
            exhaustive = false;
            cap_note = format!("wall cap {:?} hit before depth {}", b.wall, depth + 1);
            break;
        }
        if frontier.len() > b.max_frontier {
            exhaustive = false;
            cap_note = format!("frontier cap {} hit at depth {}", b.max_frontier, depth);
            break;
        }
        // process in chunks so the wall cap is honoured inside a level
        let mut next: Vec<Node<W>> = vec![];
        // chunk size adapts so that one chunk costs about a second of wall time (the wall cap is
        // checked between chunks)
        let mut chunk = 32usize;
        let mut level_complete = true;
        let mut idx = 0usize;
        while idx < frontier.len() {
            if t0.elapsed() > b.wall {
                exhaustive = false;
                level_complete = false;
                cap_note = format!(
                    "wall cap {:?} hit inside depth {} after {} of {} frontier states",
                    b.wall,
                    depth + 1,
                    idx,
                    frontier.len()
                );
                break;
            }
            let end = (idx + chunk).min(frontier.len());
            let t_chunk = Instant::now();
            let outs: Vec<NodeOut<W>> = if w.wide_expand(frontier.len()) {
                frontier[idx..end].par_iter().map(|n| expand_wide(w, n, depth)).collect()
            } else {
                frontier[idx..end].par_iter().map(|n| expand(w, n, depth)).collect()
            };
            for (off, out) in outs.into_iter().enumerate() {
                let node = &frontier[idx + off];
                transitions += out.transitions;
                stats.merge(&out.stats);
                for (op, v) in out.violations {
                    let mut h = fmt_hist(&node.hist);
                    h.push(format!("{op:?}"));
                    let sig = format!("{}|{}|{}", wname, v.oracle, w.kind(&op));
                    if viol_sigs.insert(sig.clone(), ()).is_none() {
                        rep.violation(ViolationRec {
                            world: wname.clone(),
                            seed: node.seed,
                            seed_name: w.seed_name(node.seed),
                            history: h,
                            oracle: v.oracle.clone(),
                            detail: v.detail.clone(),
                            signature: sig,
                            case: None,
                        });
                    }
                }
                for s in out.succs {
                    match seen.get(&s.key) {
                        Some(md) => {
                            if *md != s.mdig {
                                let mut h = fmt_hist(&node.hist);
                                h.push(format!("{:?}", s.op));
                                let sig = format!("{}|differential|{}", wname, w.kind(&s.op));
                                if viol_sigs.insert(sig.clone(), ()).is_none() {
                                    rep.violation(ViolationRec {
                                        world: wname.clone(),
                                        seed: node.seed,
                                        seed_name: w.seed_name(node.seed),
                                        history: h,
                                        oracle: "differential".into(),
                                        detail: "two histories reach the same storage with different model observations".into(),
                                        signature: sig,
                                        case: None,
                                    });
                                }
                            }
                        }
                        None => {
                            seen.insert(s.key, s.mdig);
                            states += 1;
                            let changed = node.changed || s.ok;
                            if changed {
                                nontrivial += 1;
                            }
                            let mut hist = node.hist.clone();
                            hist.push(s.op);
                            if samples.len() < 3 && hist.len() >= b.depth.min(3) {
                                samples.push(serde_json::json!({
                                    "world": wname, "seed": w.seed_name(node.seed), "history": fmt_hist(&hist),
                                    "state": crate::envx::hex8(&s.key)
                                }));
                            }
                            next.push(Node { seed: node.seed, hist, model: s.model, changed });
                        }
                    }
                }
            }
            idx = end;
            let took = t_chunk.elapsed().as_secs_f64().max(0.001);
            let scaled = (chunk as f64 * (1.0 / took)).clamp(16.0, 4096.0) as usize;
            chunk = (chunk * 2).min(scaled).max(16);
        }
        if level_complete {
            completed_depth = depth + 1;
        }
        frontier = next;
        if !level_complete {
            break;
        }
    }
    let saturated = frontier.is_empty() && exhaustive;
    rep.world_done(crate::report::WorldSummary {
        world: wname,
        states,
        transitions,
        nontrivial,
        completed_depth,
        target_depth: b.depth,
        exhaustive,
        saturated,
        cap_note,
        stats,
        samples,
        wall_s: t0.elapsed().as_secs_f64(),
    });
}

/// Replay a recorded history (strings from a replay file) against `w`: at each step the
/// operation whose debug text matches is looked up among the enabled operations.
pub fn replay<W: World + ?Sized>(w: &W, seed: usize, history: &[String]) -> Result<(), String> {
    let (mut inst, mut m) = w.fresh(seed);
    let mut hist: Vec<W::Op> = vec![];
    for (i, want) in history.iter().enumerate() {
        let ops = w.ops(&inst, &m, i);
        let Some(op) = ops.into_iter().find(|o| format!("{o:?}") == *want) else {
            return Err(format!("replay diverged at step {i}: operation {want} is not enabled"));
        };
        let pre = w.key(&inst);
        let mut st = Stats::default();
        let mut cx = StepCtx { world: w, seed, hist: &hist, stats: &mut st };
        match w.step(&mut inst, &mut m, &op, &mut cx) {
            Err(v) => {
                println!("step {i}: {want}\n  VIOLATED oracle={} : {}", v.oracle, v.detail);
                return Ok(());
            }
            Ok(ok) => {
                if !ok && w.atomic_on_refusal(&op) && w.key(&inst) != pre && refusal_changed_storage(w, seed, &hist, &op) {
                    println!("step {i}: {want}\n  VIOLATED oracle=failure-atomicity : a refused call changed contract storage");
                    return Ok(());
                }
                println!("step {i}: {want} -> {}", if ok { "ok" } else { "refused" });
            }
        }
        hist.push(op);
    }
    println!("replay finished: no oracle violated on this history");
    Ok(())
}
