//! Evidence, replay artefacts, known findings and the exit protocol (DESIGN §5).

use crate::engine::Stats;
use serde_json::{json, Value};
use sha2::{Digest, Sha256};
use std::collections::BTreeMap;
use std::time::Instant;

pub const VERIF_ROOT: &str = "/verif";

#[derive(Clone, Copy, Debug, PartialEq, Eq)]
pub enum Tier {
    Quick,
    Thorough,
}

impl Tier {
    pub fn name(&self) -> &'static str {
        match self {
            Tier::Quick => "quick",
            Tier::Thorough => "thorough",
        }
    }
    pub fn pick<T>(&self, q: T, t: T) -> T {
        match self {
            Tier::Quick => q,
            Tier::Thorough => t,
        }
    }
}

#[derive(Clone, Debug)]
pub struct ViolationRec {
    pub world: String,
    pub seed: usize,
    pub seed_name: String,
    pub history: Vec<String>,
    pub oracle: String,
    pub detail: String,
    /// world|oracle|operation-kind — what a known-findings entry is matched against
    pub signature: String,
    /// for stateless enumerations: a self-contained case descriptor
    pub case: Option<String>,
}

pub struct WorldSummary {
    pub world: String,
    pub states: u64,
    pub transitions: u64,
    pub nontrivial: u64,
    pub completed_depth: usize,
    pub target_depth: usize,
    pub exhaustive: bool,
    pub saturated: bool,
    pub cap_note: String,
    pub stats: Stats,
    pub samples: Vec<Value>,
    pub wall_s: f64,
}

pub enum Mode {
    Run(Tier),
    Replay(String),
}

pub struct Report {
    pub property: String,
    pub tier: Tier,
    pub seed: i64,
    pub level: &'static str,
    t0: Instant,
    worlds: Vec<WorldSummary>,
    violations: Vec<ViolationRec>,
    notes: Vec<String>,
    machinery: Vec<String>,
    assumptions: Vec<String>,
    rule: String,
    extra: BTreeMap<String, Value>,
    /// stateless enumerations
    pub evaluations: u64,
    pub distinct_nontrivial: u64,
    enum_samples: Vec<Value>,
    enum_stats: Stats,
}

/// Parse the command line of a property binary: `<tier>` | `--replay <file>`.
pub fn parse_args() -> Mode {
    let args: Vec<String> = std::env::args().skip(1).collect();
    if args.first().map(|s| s.as_str()) == Some("--replay") {
        return Mode::Replay(args.get(1).cloned().unwrap_or_else(|| {
            eprintln!("usage: --replay <file>");
            std::process::exit(2)
        }));
    }
    let t = args.first().cloned().or_else(|| std::env::var("VERIF_TIER").ok()).unwrap_or_else(|| "quick".into());
    match t.as_str() {
        "quick" => Mode::Run(Tier::Quick),
        "thorough" => Mode::Run(Tier::Thorough),
        other => {
            eprintln!("unknown tier {other}");
            std::process::exit(2)
        }
    }
}

/// Silence panic messages of contract panics that the SDK catches (`try_*` calls); the last few
/// messages are kept so that a panic that does escape (a machinery failure) can be explained.
pub fn quiet_panics() {
    std::panic::set_hook(Box::new(|info| {
        let msg = format!("{info}");
        if let Ok(mut l) = LAST_PANICS.lock() {
            if l.len() >= 6 {
                l.remove(0);
            }
            l.push(msg);
        }
    }));
}

pub static LAST_PANICS: std::sync::Mutex<Vec<String>> = std::sync::Mutex::new(Vec::new());

pub fn last_panic() -> String {
    LAST_PANICS.lock().map(|l| l.last().cloned().unwrap_or_default()).unwrap_or_default()
}

/// Run a property binary's main body: an escaping panic is a machinery failure (exit 2).
pub fn run_main(f: impl FnOnce() -> i32 + std::panic::UnwindSafe) -> ! {
    quiet_panics();
    match std::panic::catch_unwind(f) {
        Ok(code) => std::process::exit(code),
        Err(_) => {
            eprintln!("MACHINERY-ERROR: harness panicked; last panic messages:");
            if let Ok(l) = LAST_PANICS.lock() {
                for m in l.iter() {
                    eprintln!("  {m}");
                }
            }
            std::process::exit(2)
        }
    }
}

impl Report {
    pub fn new(property: &str, tier: Tier, level: &'static str) -> Self {
        let seed = std::env::var("VERIF_SEED").ok().and_then(|s| s.parse::<i64>().ok()).unwrap_or(0);
        Self {
            property: property.to_string(),
            tier,
            seed,
            level,
            t0: Instant::now(),
            worlds: vec![],
            violations: vec![],
            notes: vec![],
            machinery: vec![],
            assumptions: vec![
                "semantics of the soroban native test host (soroban-env-host 25.0.1): rollback of failed invocations, authorization matching, temporary-entry expiry".into(),
                "the reference models / oracles in /verif/harness/src/bin".into(),
            ],
            rule: String::new(),
            extra: BTreeMap::new(),
            evaluations: 0,
            distinct_nontrivial: 0,
            enum_samples: vec![],
            enum_stats: Stats::default(),
        }
    }

    pub fn rule(&mut self, r: &str) {
        self.rule = r.to_string();
    }
    pub fn assume(&mut self, a: &str) {
        self.assumptions.push(a.to_string());
    }
    pub fn note(&mut self, n: &str) {
        println!("note: {n}");
        self.notes.push(n.to_string());
    }
    pub fn extra(&mut self, k: &str, v: Value) {
        self.extra.insert(k.to_string(), v);
    }
    pub fn machinery_error(&mut self, m: &str) {
        eprintln!("MACHINERY-ERROR: {m}");
        self.machinery.push(m.to_string());
    }
    pub fn violation(&mut self, v: ViolationRec) {
        self.violations.push(v);
    }
    pub fn sample(&mut self, v: Value) {
        if self.enum_samples.len() < 6 {
            self.enum_samples.push(v);
        }
    }
    /// Record a violation found by a stateless enumeration.
    pub fn case_violation(&mut self, world: &str, oracle: &str, kind: &str, case: String, detail: String) {
        let sig = format!("{world}|{oracle}|{kind}");
        if self.violations.iter().filter(|v| v.signature == sig).count() >= 1 {
            return;
        }
        self.violations.push(ViolationRec {
            world: world.into(),
            seed: 0,
            seed_name: String::new(),
            history: vec![],
            oracle: oracle.into(),
            detail,
            signature: sig,
            case: Some(case),
        });
    }
    pub fn has_violation(&self, sig: &str) -> bool {
        self.violations.iter().any(|v| v.signature == sig)
    }

    pub fn world_done(&mut self, w: WorldSummary) {
        println!(
            "world {}: states={} transitions={} depth={}/{} exhaustive={} saturated={} wall={:.1}s {}",
            w.world, w.states, w.transitions, w.completed_depth, w.target_depth, w.exhaustive, w.saturated, w.wall_s, w.cap_note
        );
        for (k, (ok, no)) in &w.stats.ops {
            println!("    {k:<28} ok={ok:<9} refused={no}");
        }
        for (k, n) in &w.stats.counters {
            println!("    #{k:<27} {n}");
        }
        self.worlds.push(w);
    }

    /// Outcome histogram entry of a stateless enumeration (counted by `require` like BFS outcomes).
    pub fn enum_op(&mut self, kind: &str, ok: bool) {
        self.enum_stats.op(kind, ok);
    }
    pub fn enum_count(&mut self, k: &str, n: u64) {
        self.enum_stats.count(k, n);
    }

    /// Vacuity rule (DESIGN §2.3): these operation kinds must have succeeded / been refused at
    /// least once somewhere in the run, otherwise the check reports a machinery error.
    pub fn require(&mut self, must_ok: &[&str], must_refuse: &[&str]) {
        let mut agg = self.enum_stats.clone();
        for w in &self.worlds {
            agg.merge(&w.stats);
        }
        for k in must_ok {
            if agg.ops.get(*k).map(|v| v.0).unwrap_or(0) == 0 {
                self.machinery_error(&format!("vacuous exploration: operation kind '{k}' never succeeded"));
            }
        }
        for k in must_refuse {
            if agg.ops.get(*k).map(|v| v.1).unwrap_or(0) == 0 {
                self.machinery_error(&format!("vacuous exploration: operation kind '{k}' was never refused"));
            }
        }
    }
    pub fn require_counter(&mut self, names: &[&str]) {
        let mut agg = self.enum_stats.clone();
        for w in &self.worlds {
            agg.merge(&w.stats);
        }
        for k in names {
            if agg.counters.get(*k).copied().unwrap_or(0) == 0 {
                self.machinery_error(&format!("vacuous exploration: counter '{k}' is zero"));
            }
        }
    }

    fn known(&self) -> Vec<Value> {
        let p = format!("{VERIF_ROOT}/KNOWN_FINDINGS.json");
        let Ok(s) = std::fs::read_to_string(&p) else { return vec![] };
        let v: Value = serde_json::from_str(&s).unwrap_or(json!({}));
        v.get("findings").and_then(|f| f.as_array()).cloned().unwrap_or_default()
    }

    fn write_replay(&self, v: &ViolationRec) -> String {
        let body = json!({
            "property": self.property,
            "world": v.world,
            "seed": v.seed,
            "seed_name": v.seed_name,
            "history": v.history,
            "case": v.case,
            "oracle": v.oracle,
            "detail": v.detail,
            "signature": v.signature,
        });
        let text = serde_json::to_string_pretty(&body).unwrap();
        let mut h = Sha256::new();
        h.update(v.signature.as_bytes());
        h.update(format!("{:?}{:?}", v.history, v.case).as_bytes());
        let d = hex::encode(&h.finalize()[..6]);
        let dir = format!("{VERIF_ROOT}/replays");
        let _ = std::fs::create_dir_all(&dir);
        let path = format!("{dir}/{}-{}.json", self.property, d);
        let _ = std::fs::write(&path, text);
        path
    }

    /// Write the evidence file, print verdict lines, return the process exit code.
    pub fn finish(mut self) -> i32 {
        let known = self.known();
        let mut unknown = 0;
        let mut known_hits = 0;
        let vs = std::mem::take(&mut self.violations);
        for v in &vs {
            let hit = known.iter().find(|k| {
                k.get("status").and_then(|s| s.as_str()) == Some("known")
                    && k.get("property").and_then(|s| s.as_str()) == Some(self.property.as_str())
                    && k.get("signature").and_then(|s| s.as_str()) == Some(v.signature.as_str())
            });
            match hit {
                Some(k) => {
                    known_hits += 1;
                    println!(
                        "KNOWN-FINDING: property={} {} [{}]",
                        self.property,
                        k.get("what").and_then(|s| s.as_str()).unwrap_or(""),
                        v.signature
                    );
                }
                None => {
                    unknown += 1;
                    let path = self.write_replay(v);
                    println!("  oracle={} world={} seed={}", v.oracle, v.world, v.seed_name);
                    for (i, h) in v.history.iter().enumerate() {
                        println!("    {i}: {h}");
                    }
                    if let Some(c) = &v.case {
                        println!("    case: {c}");
                    }
                    println!("  {}", v.detail);
                    println!("VIOLATION property={} replay={}", self.property, path);
                }
            }
        }

        let states: u64 = self.worlds.iter().map(|w| w.states).sum();
        let transitions: u64 = self.worlds.iter().map(|w| w.transitions).sum();
        let nontrivial: u64 = self.worlds.iter().map(|w| w.nontrivial).sum::<u64>() + self.distinct_nontrivial;
        let exhaustive = self.worlds.iter().all(|w| w.exhaustive) && self.machinery.is_empty();
        let mut samples: Vec<Value> = self.worlds.iter().flat_map(|w| w.samples.iter().take(2).cloned()).take(8).collect();
        samples.extend(self.enum_samples.iter().cloned());
        if samples.is_empty() {
            samples.push(json!({"note": "no sample recorded"}));
        }
        let worlds: Vec<Value> = self
            .worlds
            .iter()
            .map(|w| {
                json!({
                    "world": w.world, "states": w.states, "transitions": w.transitions,
                    "distinct_nontrivial": w.nontrivial,
                    "completed_depth": w.completed_depth, "target_depth": w.target_depth,
                    "exhaustive_to_target": w.exhaustive, "state_space_saturated": w.saturated, "cap": w.cap_note,
                    "wall_s": (w.wall_s * 100.0).round() / 100.0,
                    "outcomes": w.stats.ops.iter().map(|(k,(a,b))| (k.clone(), json!({"ok":a,"refused":b}))).collect::<BTreeMap<_,_>>(),
                    "counters": w.stats.counters,
                })
            })
            .collect();
        let evaluations = transitions + self.evaluations;
        let mut coverage: Value = json!({
            "evaluations": evaluations,
            "distinct_nontrivial": nontrivial,
            "rule": self.rule,
            "samples": samples,
            "exhaustive": exhaustive,
            "worlds": worlds,
            "notes": self.notes,
            "known_findings_matched": known_hits,
            "explanation": "every transition is one execution of the real contract code (rebuilt from its history in a fresh soroban Env) compared step by step with the reference model; traces_validated_against_impl therefore equals transitions",
        });
        if !self.worlds.is_empty() {
            coverage["states"] = json!(states);
            coverage["transitions"] = json!(transitions);
            coverage["traces_validated_against_impl"] = json!(transitions);
        }
        if self.evaluations > 0 {
            coverage["stateless_case_evaluations"] = json!(self.evaluations);
            coverage["stateless_outcomes"] = json!(self.enum_stats.ops.iter().map(|(k, (a, b))| (k.clone(), json!({"ok": a, "refused": b}))).collect::<BTreeMap<_, _>>());
            coverage["stateless_counters"] = json!(self.enum_stats.counters);
        }
        for (k, v) in &self.extra {
            coverage[k] = v.clone();
        }
        let ev = json!({
            "property_id": self.property,
            "tier": self.tier.name(),
            "seed": self.seed,
            "level": self.level,
            "coverage": coverage,
            "assumptions": self.assumptions,
            "wall_s": (self.t0.elapsed().as_secs_f64() * 100.0).round() / 100.0,
            "violations": unknown,
            "machinery_errors": self.machinery,
        });
        let dir = format!("{VERIF_ROOT}/evidence");
        let _ = std::fs::create_dir_all(&dir);
        let path = format!("{dir}/{}.json", self.property);
        if let Err(e) = std::fs::write(&path, serde_json::to_string_pretty(&ev).unwrap()) {
            eprintln!("MACHINERY-ERROR: cannot write {path}: {e}");
            return 2;
        }
        println!(
            "{} {}: states={} transitions/evaluations={} distinct_nontrivial={} violations={} known={} exhaustive={} wall={:.1}s",
            self.property,
            self.tier.name(),
            states,
            evaluations,
            nontrivial,
            unknown,
            known_hits,
            exhaustive,
            self.t0.elapsed().as_secs_f64()
        );
        if unknown > 0 {
            1
        } else if !self.machinery.is_empty() {
            2
        } else {
            0
        }
    }
}

pub struct ReplayFile {
    pub world: String,
    pub seed: usize,
    pub history: Vec<String>,
    pub case: Option<String>,
}

pub fn read_replay(path: &str) -> ReplayFile {
    let s = std::fs::read_to_string(path).unwrap_or_else(|e| {
        eprintln!("cannot read {path}: {e}");
        std::process::exit(2)
    });
    let v: Value = serde_json::from_str(&s).unwrap_or_else(|e| {
        eprintln!("bad replay file: {e}");
        std::process::exit(2)
    });
    ReplayFile {
        world: v["world"].as_str().unwrap_or("").to_string(),
        seed: v["seed"].as_u64().unwrap_or(0) as usize,
        history: v["history"].as_array().map(|a| a.iter().map(|x| x.as_str().unwrap_or("").to_string()).collect()).unwrap_or_default(),
        case: v["case"].as_str().map(|s| s.to_string()),
    }
}
